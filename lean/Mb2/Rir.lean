/-
  Mb2.Rir — a small intermediate representation ("Rust IR") for the straight-line, integer / decision fragment of
  Rust that the core functions of the three crates are written in, and its evaluator.

  `tools/gen_fns.py` TRANSLATES function bodies of /repo's working tree into closed `E` terms (file `Mb2/Gen/Fns.lean`,
  regenerated on every run). The theorems of `Mb2/Props/Fns.lean` prove, for ALL argument values, that evaluating the
  translated body yields exactly what the hand-written model function yields - so the model's decision functions are
  re-checked against what the source says now.

  What the IR can express: integer literals (typed / untyped), variables (free variables = the function's inputs and
  every sub-expression the translator treats as opaque, e.g. `bytes.len()`), unary / binary operators with Rust's
  profile-dependent overflow behaviour (`dev`: panic, `release`: wrap), `as` casts between unsigned integer types,
  the explicit `wrapping_* / saturating_* / checked_*` methods, `min` / `max`, enum-like constructors with at most one
  argument (`Ok(x)`, `Err(e)`, `None`, `TagType::Custom(c)`), pairs, `if`, `let`, `panic` (failed `assert!`,
  `unwrap` on `None`), the `?` operator and `ok_or` / `map_err`. Early `return`s, `match` on integers / constructors,
  `assert!`, `debug_assert!`, compound assignment are desugared by the translator into these.

  Import-free (core only).
-/
import Mb2.Basic
namespace Mb2.Rir

inductive Ty where
  | u8 | u16 | u32 | u64 | usize
deriving Repr, DecidableEq, Inhabited

def Ty.modulus : Ty → Nat
  | .u8 => 256 | .u16 => 65536 | .u32 => W32 | .u64 => W64 | .usize => W64

def Ty.bits : Ty → Nat
  | .u8 => 8 | .u16 => 16 | .u32 => 32 | .u64 => 64 | .usize => 64

/-- run-time values -/
inductive V where
  | int (ty : Ty) (n : Nat)        -- a machine integer, `n < ty.modulus`
  | lit (n : Nat)                  -- an integer literal / constant whose type comes from the context
  | bool (b : Bool)
  | unit
  | c0 (name : String)             -- `None`, `MemoryError::Null`, `TagType::End`
  | c1 (name : String) (v : V)     -- `Some(x)`, `Ok(x)`, `Err(e)`, `TagType::Custom(c)`
  | pair (a b : V)
  | stuck                          -- ill-typed / unsupported: propagates, never equal to a model result
deriving Repr, DecidableEq, Inhabited

inductive BinOp where
  | add | sub | mul | div | rem | band | bor | bxor | shl | shr
  | eq | ne | lt | le | gt | ge | land | lor
deriving Repr, DecidableEq, Inhabited

inductive UnOp where
  | not | neg
deriving Repr, DecidableEq, Inhabited

/-- explicit integer methods and the few library functions with a fixed meaning -/
inductive Prim where
  | wrappingAdd | wrappingSub | wrappingMul | saturatingSub | saturatingAdd
  | checkedAdd | checkedSub | checkedMul | min | max
  | okOr          -- `opt.ok_or(e)`
  | mapErr        -- `res.map_err(Ctor)`  (second argument: `c0 Ctor`)
  | unwrap        -- `x.unwrap()` / `x.expect(..)`: panics on `None` / `Err`
  | isC           -- `matches!(x, Ctor ..)` (second argument: `c0 Ctor`)
  | arg           -- payload of a one-argument constructor
  | fst | snd
deriving Repr, DecidableEq, Inhabited

inductive E where
  | lit (n : Nat)
  | tlit (n : Nat) (ty : Ty)
  | blit (b : Bool)
  | unit
  | var (i : Nat)
  | bin (op : BinOp) (a b : E)
  | un (op : UnOp) (a : E)
  | cast (a : E) (ty : Ty)
  | c0 (name : String)
  | c1 (name : String) (a : E)
  | pair (a b : E)
  | prim1 (f : Prim) (a : E)
  | prim2 (f : Prim) (a b : E)
  | ite (c t e : E)
  | letIn (i : Nat) (e body : E)
  | tryE (i : Nat) (e body : E)      -- `let i = e?; body`
  | isDev                            -- `cfg!(debug_assertions)`
  | panic
deriving Repr, DecidableEq, Inhabited

abbrev Env := Nat → V

def Env.set (env : Env) (i : Nat) (v : V) : Env := fun j => if j = i then v else env j

/-- environment from a list of values for the variables `0, 1, 2, …` -/
def envOf (vs : List V) : Env := fun j => vs.getD j .stuck

/-! ### arithmetic -/

/-- give an untyped literal the type of the other operand (rustc rejects out-of-range literals at compile time) -/
def unify : V → V → Option (Option Ty × Nat × Nat)
  | .int t a, .int u b => if t = u then some (some t, a, b) else none
  | .int t a, .lit b => some (some t, a, b)
  | .lit a, .int t b => some (some t, a, b)
  | .lit a, .lit b => some (none, a, b)
  | _, _ => none

/-- tag a machine result with its type -/
def mkInt (t : Option Ty) (r : Res Nat) : Res V :=
  r >>= fun n => .ok (match t with | some t => .int t n | none => .lit n)

def arith (p : Profile) (op : BinOp) (t : Option Ty) (a b : Nat) : Res V :=
  match op, t with
  | .add, some t => mkInt (some t) (uadd p t.modulus a b)
  | .add, none => .ok (.lit (a + b))
  | .sub, some t => mkInt (some t) (usub p t.modulus a b)
  | .sub, none => if b ≤ a then .ok (.lit (a - b)) else .ok .stuck
  | .mul, some t => mkInt (some t) (umul p t.modulus a b)
  | .mul, none => .ok (.lit (a * b))
  | .div, t => if b = 0 then .panic else mkInt t (.ok (a / b))
  | .rem, t => if b = 0 then .panic else mkInt t (.ok (a % b))
  | .band, t => mkInt t (.ok (a &&& b))
  | .bor, t => mkInt t (.ok (a ||| b))
  | .bxor, t => mkInt t (.ok (a ^^^ b))
  | .eq, _ => .ok (.bool (decide (a = b)))
  | .ne, _ => .ok (.bool (decide (a ≠ b)))
  | .lt, _ => .ok (.bool (decide (a < b)))
  | .le, _ => .ok (.bool (decide (a ≤ b)))
  | .gt, _ => .ok (.bool (decide (a > b)))
  | .ge, _ => .ok (.bool (decide (a ≥ b)))
  | _, _ => .ok .stuck

/-- `==` on field-less enum values / booleans -/
def veq : V → V → Option Bool
  | .c0 a, .c0 b => some (a == b)
  | .bool a, .bool b => some (a == b)
  | .unit, .unit => some true
  | _, _ => none

def shift (p : Profile) (left : Bool) (x y : V) : Res V :=
  match x, y with
  | .int t a, .int _ s | .int t a, .lit s =>
    if s ≥ t.bits then (match p with | .dev => .panic | .release => .ok .stuck)
    else if left then .ok (.int t ((a <<< s) % t.modulus)) else .ok (.int t (a >>> s))
  | _, _ => .ok .stuck

def binop (p : Profile) (op : BinOp) (x y : V) : Res V :=
  match op with
  | .shl => shift p true x y
  | .shr => shift p false x y
  | .land | .lor => .ok .stuck        -- handled by `eval` (short-circuit)
  | _ =>
    match unify x y with
    | some (t, a, b) => arith p op t a b
    | none =>
      match op, veq x y with
      | .eq, some r => .ok (.bool r)
      | .ne, some r => .ok (.bool (!r))
      | _, _ => .ok .stuck

def unop (op : UnOp) (x : V) : Res V :=
  match op, x with
  | .not, .bool b => .ok (.bool (!b))
  | .not, .int t a => .ok (.int t (t.modulus - 1 - a))      -- bitwise complement
  | _, _ => .ok .stuck

def castV (x : V) (ty : Ty) : Res V :=
  match x with
  | .int _ a => .ok (.int ty (a % ty.modulus))
  | .lit a => .ok (.int ty (a % ty.modulus))
  | .bool b => .ok (.int ty (if b then 1 else 0))
  | _ => .ok .stuck

def optV (t : Ty) (r : Option Nat) : V :=
  match r with
  | some n => .c1 "Some" (.int t n)
  | none => .c0 "None"

def intPrim (f : Prim) (t : Ty) (a b : Nat) : Res V :=
  let w := t.modulus
  match f with
  | .wrappingAdd => .ok (.int t ((a + b) % w))
  | .wrappingSub => .ok (.int t ((a + w - b) % w))
  | .wrappingMul => .ok (.int t ((a * b) % w))
  | .saturatingSub => .ok (.int t (a - b))
  | .saturatingAdd => .ok (.int t (if a + b < w then a + b else w - 1))
  | .checkedAdd => .ok (optV t (if a + b < w then some (a + b) else none))
  | .checkedSub => .ok (optV t (if b ≤ a then some (a - b) else none))
  | .checkedMul => .ok (optV t (if a * b < w then some (a * b) else none))
  | .min => .ok (.int t (if a ≤ b then a else b))
  | .max => .ok (.int t (if a ≤ b then b else a))
  | _ => .ok .stuck

def okOr (x y : V) : Res V :=
  match x with
  | .c1 "Some" v => .ok (.c1 "Ok" v)
  | .c0 "None" => .ok (.c1 "Err" y)
  | _ => .ok .stuck

def mapErr (x y : V) : Res V :=
  match x, y with
  | .c1 "Ok" v, _ => .ok (.c1 "Ok" v)
  | .c1 "Err" e, .c0 ctor => .ok (.c1 "Err" (.c1 ctor e))
  | _, _ => .ok .stuck

def isC (x y : V) : Res V :=
  match x, y with
  | .c0 a, .c0 b => .ok (.bool (a == b))
  | .c1 a _, .c0 b => .ok (.bool (a == b))
  | _, _ => .ok .stuck

def prim2 (f : Prim) (x y : V) : Res V :=
  match f with
  | .okOr => okOr x y
  | .mapErr => mapErr x y
  | .isC => isC x y
  | _ =>
    match unify x y with
    | some (some t, a, b) => intPrim f t a b
    | _ => .ok .stuck

def prim1 (f : Prim) (x : V) : Res V :=
  match f, x with
  | .unwrap, .c1 "Some" v => .ok v
  | .unwrap, .c1 "Ok" v => .ok v
  | .unwrap, .c0 "None" => .panic
  | .unwrap, .c1 "Err" _ => .panic
  | .arg, .c1 _ v => .ok v
  | .fst, .pair a _ => .ok a
  | .snd, .pair _ b => .ok b
  | _, _ => .ok .stuck

/-- `if c { t } else { e }` on an evaluated condition -/
def cond (c : V) (t e : Res V) : Res V :=
  match c with
  | .bool true => t
  | .bool false => e
  | _ => .ok .stuck

/-- `a && b` / `a || b` on an evaluated left operand -/
def andAlso (c : V) (b : Res V) : Res V :=
  match c with
  | .bool true => b
  | .bool false => .ok (.bool false)
  | _ => .ok .stuck
def orElse (c : V) (b : Res V) : Res V :=
  match c with
  | .bool true => .ok (.bool true)
  | .bool false => b
  | _ => .ok .stuck

/-- the `?` operator on an evaluated operand -/
def tryV (x : V) (k : V → Res V) : Res V :=
  match x with
  | .c1 "Ok" v => k v
  | .c1 "Some" v => k v
  | .c1 "Err" e => .ok (.c1 "Err" e)
  | .c0 "None" => .ok (.c0 "None")
  | _ => .ok .stuck

/-! ### evaluator -/

def eval (p : Profile) : Env → E → Res V
  | _, .lit n => .ok (.lit n)
  | _, .tlit n ty => .ok (.int ty n)
  | _, .blit b => .ok (.bool b)
  | _, .unit => .ok .unit
  | env, .var i => .ok (env i)
  | env, .bin .land a b => eval p env a >>= fun x => andAlso x (eval p env b)
  | env, .bin .lor a b => eval p env a >>= fun x => orElse x (eval p env b)
  | env, .bin op a b => eval p env a >>= fun x => eval p env b >>= fun y => binop p op x y
  | env, .un op a => eval p env a >>= fun x => unop op x
  | env, .cast a ty => eval p env a >>= fun x => castV x ty
  | _, .c0 name => .ok (.c0 name)
  | env, .c1 name a => eval p env a >>= fun x => .ok (.c1 name x)
  | env, .pair a b => eval p env a >>= fun x => eval p env b >>= fun y => .ok (.pair x y)
  | env, .prim1 f a => eval p env a >>= fun x => prim1 f x
  | env, .prim2 f a b => eval p env a >>= fun x => eval p env b >>= fun y => prim2 f x y
  | env, .ite c t e => eval p env c >>= fun x => cond x (eval p env t) (eval p env e)
  | env, .letIn i e body => eval p env e >>= fun x => eval p (env.set i x) body
  | env, .tryE i e body => eval p env e >>= fun x => tryV x (fun v => eval p (env.set i v) body)
  | _, .isDev => .ok (.bool (p == .dev))
  | _, .panic => .panic

/-- evaluation of an optional (possibly not derivable) translation -/
def evalO (p : Profile) (vs : List V) (e : Option E) : Option (Res V) := e.map (eval p (envOf vs))

end Mb2.Rir
