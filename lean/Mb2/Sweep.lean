/-
  Mb2.Sweep — the model side of the SWEEP family: load a region, call every getter / accessor / iterator of the
  boot-information model and render the observations in the same canonical text as the Rust harness (harness/src/sweep.rs).
-/
import Mb2.Tags
namespace Mb2.Sweep
open Mb2

def hexDigit (n : Nat) : Char := if n < 10 then Char.ofNat (48 + n) else Char.ofNat (87 + n)
def hex64 (v : UInt64) : String :=
  String.ofList ((List.range 16).map fun i => hexDigit ((v >>> (UInt64.ofNat (60 - 4*i))) &&& 15).toNat)

def resS {α} (f : α → String) : Res α → String
  | .ok a => f a | .panic => "P" | .oob => "OOB" | .ub => "UB"

/-- `name=value,` -/
def fld (name : String) (r : Res Nat) : String := s!"{name}={resS toString r},"

def fields (T : Bytes) (fs : List (String × Nat × Nat)) : String :=
  String.join (fs.map fun (n, o, w) => fld n (rdW T o w))

/-- region offset of a tag-relative offset -/
def roff (v : View) (o : Nat) : Nat := 8 + v.off + o

def strS (T : Bytes) (v : View) (fixed n : Nat) : String :=
  let bytes := slice T fixed n
  match parseStr bytes with
  | .ok len => s!"s({roff v fixed}:{len}:{hex64 (fnv (bytes.take len))})"
  | .error .missingNul => "e:MissingNul"
  | .error .utf8 => "e:Utf8"

def utf8S (T : Bytes) (v : View) (o n : Nat) : String :=
  let bytes := slice T o n
  if validUtf8 bytes then s!"s({roff v o}:{n}:{hex64 (fnv bytes)})" else "e:Utf8"

/-- getter wrapper -/
def getter (name : String) (g : Res (Option View)) (body : View → String) : String :=
  name ++ "=" ++
  (match g with
   | .ok none => "-"
   | .ok (some v) => s!"@{8 + v.off}:{v.sov}" ++ "{" ++ body v ++ "}"
   | .panic => "P" | .oob => "OOB" | .ub => "UB") ++ ";"

def endS : End → String
  | .done => "]." | .bad => "]!" | .oob => "]OOB" | .ub => "]UB"

def efiS (T : Bytes) (v : View) : String :=
  "areas=" ++
  (match efiEntries T v with
   | .ok (ds, cnt) =>
     s!"[len={cnt}|" ++
     String.join ((List.range cnt).map fun i =>
       match efiDesc T ds i with
       | .ok d => "{" ++ s!"@{roff v d.off},ty={d.ty},phys={d.phys},virt={d.virt},pages={d.pages},att={d.att},rem={cnt - i - 1}" ++ "}"
       | .panic => "P" | .oob => "OOB" | .ub => "UB") ++ "].rem=0"
   | .panic => "P" | .oob => "OOB" | .ub => "UB") ++ ","

def boolS (b : Bool) : String := if b then "true" else "false"

def elfSecS (s : ElfSec) : String :=
  "{" ++ s!"type={s.typ.discr},raw={s.raw},flags={s.flags},start={s.start},end={s.end},size={s.size},align={s.align},alloc={boolS (s.flags / 2 % 2 == 1)},rem={s.rem}" ++ "}"

def elfS (T : Bytes) (v : View) : String :=
  fields T (Kind.fields .elf) ++ "sections=" ++
  (match elfOpen T v with
   | .ok (num, es) => let r := elfIter T es num 20; "[" ++ String.join (r.1.map elfSecS) ++ endS r.2
   | .panic => "P" | .oob => "OOB" | .ub => "UB") ++ ","

def fbTypeS (T : Bytes) (v : View) : Res (Ex Nat FbType) → String
  | .ok (.error b) => s!"unknown:{b}"
  | .ok (.ok (.indexed po num)) => s!"indexed({roff v po}:{num}:{hex64 (fnv ((slice T po (num * 3)).take 4096))})"
  | .ok (.ok (.rgb a b c d e f)) => s!"rgb({a}:{b}:{c}:{d}:{e}:{f})"
  | .ok (.ok .text) => "text"
  | .panic => "P" | .oob => "OOB" | .ub => "UB"

def fbS (T : Bytes) (v : View) : String :=
  fields T (Kind.fields .fb) ++
  "type=" ++ fbTypeS T v (fbBufferType T v) ++ ","

def mmapS (T : Bytes) (v : View) : String :=
  fields T (Kind.fields .mmap) ++ "areas=" ++
  (match memoryAreas T v with
   | .ok as => s!"[{roff v 16}:{as.length}|" ++
       String.join (as.map fun a => "{" ++ s!"start={a.start},end={a.end},size={a.size},typ={a.typ}," ++ "}") ++ "]"
   | .panic => "P" | .oob => "OOB" | .ub => "UB") ++ ","

def colonJoin (l : List (Res Nat)) : String := ":".intercalate (l.map (resS toString))

def vbeS (T : Bytes) : String :=
  fields T (Kind.fields .vbe) ++
  "ci=" ++ colonJoin (vbeControlFields.map fun (o, w) => rdW T o w) ++ "," ++
  "mi=" ++ colonJoin (vbeModeFields.map (fun (o, w) => rdW T o w) ++ [.ok 0, .ok 0]) ++ ","

def isOkSome {α} : Res (Option α) → Bool
  | .ok (some _) => true | _ => false
def isPanic {α} : Res α → Bool
  | .panic => true | _ => false

/-- the whole sweep of a loaded region `R` (declared size = `R.length`) -/
def sweepLoaded (p : Profile) (R : Bytes) : String :=
  let area := R.drop 8
  let w := tagsOf p .tag area
  let ext (v : View) : Bytes := v.bytes area
  let g (k : Kind) := getTag p area k
  let simple (name : String) (k : Kind) := getter name (g k) (fun v => fields (ext v) k.fields)
  let tagsS := "tags=" ++ String.join (w.1.map fun it => s!"{8 + it.off}:{it.typ}:{it.size}:{it.pl},") ++
    (match w.2 with | .done => "|done" | .bad => "|panic" | .oob => "|OOB" | .ub => "|UB") ++ ";"
  -- efi_memory_map_tag(): withheld while a boot-services-not-exited tag is present
  let efiG : Res (Option View) := efiMemoryMapTag p area
  -- framebuffer_tag(): get_tag + buffer_type()
  let fbG := g .fb
  let fbStr := "fb=" ++
    (match fbG with
     | .ok none => "-"
     | .ok (some v) =>
       (match fbBufferType (ext v) v with
        | .panic => "P" | .oob => "OOB" | .ub => "UB"
        | .ok (.error b) => s!"unknown:{b}"
        | .ok (.ok _) => s!"@{8 + v.off}:{v.sov}" ++ "{" ++ fbS (ext v) v ++ "}")
     | .panic => "P" | .oob => "OOB" | .ub => "UB") ++ ";"
  let mods := moduleViews p area
  let modS := "modules=[" ++ String.join (mods.1.map fun v =>
      let T := ext v
      s!"@{8 + v.off}:{v.sov}" ++ "{" ++ fields T (Kind.fields .module) ++
        fld "size" (do let a ← rd32 T 8; let b ← rd32 T 12; pure (b - a)) ++
        s!"cmdline={strS T v 16 v.n}," ++ "}") ++ endS mods.2 ++ ";"
  -- deprecated elf_sections()
  let elfG := g .elf
  let elfSecs := "elf_sections=" ++
    (match elfG with
     | .ok none => "-"
     | .ok (some v) =>
       let T := ext v
       resS toString (do
         let es ← rd32 T 12
         let sh ← rd32 T 16
         if es * sh > v.size then .panic else
         let r ← elfOpen T v
         pure r.1)
     | .panic => "P" | .oob => "OOB" | .ub => "UB") ++ ";"
  -- Debug: panics iff the walk is bad, a getter panics, or one of the Debug impls that call checked accessors panics
  let getters := [g .apm, g .meminfo, g .loader, g .bootdev, g .cmdline, g .efiBs, g .efiIh32, g .efiIh64, efiG,
                  g .efiSdt32, g .efiSdt64, elfG, fbG, g .loadBase, g .mmap, g .network, g .rsdp1, g .rsdp2, g .smbios, g .vbe]
  let efiDbgPanics := match efiG with
    | .ok (some v) => isPanic (efiEntries (ext v) v)
    | _ => false
  let elfDbgPanics := match elfG with
    | .ok (some v) =>
      (match elfOpen (ext v) v with
       | .ok (num, es) => num ≠ 0 ∧ es ≠ 40 ∧ es ≠ 64
       | _ => true)
    | _ => false
  let fbDbgPanics := match fbG with
    | .ok (some v) => isPanic (fbBufferType (ext v) v)
    | _ => false
  let dbgPanics := w.2 != .done || getters.any isPanic || efiDbgPanics || elfDbgPanics || fbDbgPanics || mods.2 != .done
  tagsS ++
  simple "apm" .apm ++ simple "meminfo" .meminfo ++
  getter "loader" (g .loader) (fun v => fields (ext v) (Kind.fields .loader) ++ s!"name={strS (ext v) v 8 v.n},") ++
  simple "bootdev" .bootdev ++
  getter "cmdline" (g .cmdline) (fun v => s!"cmdline={strS (ext v) v 8 v.n},") ++
  simple "efi_bs" .efiBs ++ simple "efi_ih32" .efiIh32 ++ simple "efi_ih64" .efiIh64 ++
  getter "efi_mmap" efiG (fun v => efiS (ext v) v) ++
  simple "efi_sdt32" .efiSdt32 ++ simple "efi_sdt64" .efiSdt64 ++
  getter "elf" elfG (fun v => elfS (ext v) v) ++
  fbStr ++
  simple "load_base" .loadBase ++
  getter "mmap" (g .mmap) (fun v => mmapS (ext v) v) ++
  modS ++
  simple "network" .network ++
  getter "rsdp1" (g .rsdp1) (fun v => let T := ext v
    s!"signature={utf8S T v 8 8},valid={resS boolS (rsdp1Valid T)},oem_id={utf8S T v 17 6}," ++ fields T (Kind.fields .rsdp1)) ++
  getter "rsdp2" (g .rsdp2) (fun v => let T := ext v
    s!"signature={utf8S T v 8 8},valid={resS boolS (rsdp2Valid T)},oem_id={utf8S T v 17 6}," ++ fields T (Kind.fields .rsdp2)) ++
  getter "smbios" (g .smbios) (fun v => let T := ext v
    fields T (Kind.fields .smbios) ++ s!"tables=b({roff v 16}:{v.n}:{hex64 (fnv (slice T 16 v.n))}),") ++
  getter "vbe" (g .vbe) (fun v => vbeS (ext v)) ++
  elfSecs ++
  "debug=" ++ (if dbgPanics then "P" else "ok") ++ ";"

def memErrStr : MemErr → String
  | .null => "Null" | .wrongAlignment => "WrongAlignment" | .shorterThanHeader => "ShorterThanHeader"
  | .missingPadding => "MissingPadding" | .invalidReportedTotalSize => "InvalidReportedTotalSize"

/-- SWEEP on the memory behind the pointer -/
def sweep (p : Profile) (mem : Bytes) : String :=
  match load p false mem with
  | .ok (.ok l) => s!"ld=ok({l.start}:{l.end}:{l.total});" ++ sweepLoaded p (mem.take l.total)
  | .ok (.error (.memory e)) => s!"ld=err:{memErrStr e};"
  | .ok (.error .noEndTag) => "ld=err:NoEndTag;"
  | .panic => "ld=panic;" | .oob => "ld=OOB;" | .ub => "ld=UB;"

end Mb2.Sweep
