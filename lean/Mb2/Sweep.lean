/-
  Mb2.Sweep — the model side of the SWEEP family: load a region, call every getter / accessor / iterator of the
  boot-information model and produce the observations in the same canonical text as the Rust harness
  (harness/src/sweep.rs).

  The sweep is a list of `Piece`s: literal text, or one of the two FAULT markers `oob` / `ub`. The rendered text
  (`Obs.render`) is what the correspondence check compares with the real code; the theorems of `Props/C01.lean`
  (`sweep_no_fault`) are about this very function: for every memory content no `oob` / `ub` piece is ever produced.
  Every variable-length part handed to the caller (strings, SMBIOS tables, palette) is obtained by a CHECKED slice on the
  tag's bytes up to its DECLARED size (`declared`), every fixed field by a checked read on the typed view's extent.
-/
import Mb2.Tags
namespace Mb2

/-- one piece of an observation line -/
inductive Piece where
  | txt (s : String) | oob | ub
deriving Repr, DecidableEq, Inhabited

def Piece.render : Piece → String
  | .txt s => s | .oob => "OOB" | .ub => "UB"

abbrev Obs := List Piece
def Obs.render (o : Obs) : String := String.join (o.map Piece.render)
/-- no memory-safety fault and no undefined enum value anywhere in the observation -/
def Obs.NoFault (o : Obs) : Prop := ∀ x ∈ o, x ≠ .oob ∧ x ≠ .ub
def Obs.NoOob (o : Obs) : Prop := ∀ x ∈ o, x ≠ .oob

namespace Sweep

def t (s : String) : Obs := [.txt s]

def hexDigit (n : Nat) : Char := if n < 10 then Char.ofNat (48 + n) else Char.ofNat (87 + n)
def hex64 (v : UInt64) : String :=
  String.ofList ((List.range 16).map fun i => hexDigit ((v >>> (UInt64.ofNat (60 - 4*i))) &&& 15).toNat)

def resO {α} (f : α → Obs) : Res α → Obs
  | .ok a => f a | .panic => t "P" | .oob => [.oob] | .ub => [.ub]

def resS {α} (f : α → String) (r : Res α) : Obs := resO (fun a => t (f a)) r

/-- `name=value,` -/
def fld (name : String) (r : Res Nat) : Obs := t s!"{name}=" ++ resS toString r ++ t ","

def fields (T : Bytes) (fs : List (String × Nat × Nat)) : Obs :=
  (fs.map fun (n, o, w) => fld n (rdW T o w)).flatten

/-- region offset of a tag-relative offset -/
def roff (v : View) (o : Nat) : Nat := 8 + v.off + o

/-- the bytes of a tag up to its DECLARED size: the extent from which variable-length parts are handed out -/
def declared (T : Bytes) (v : View) : Bytes := T.take v.size

def strS (T : Bytes) (v : View) (fixed n : Nat) : Obs :=
  resS (fun bytes =>
    match parseStr bytes with
    | .ok len => s!"s({roff v fixed}:{len}:{hex64 (fnv (bytes.take len))})"
    | .error .missingNul => "e:MissingNul"
    | .error .utf8 => "e:Utf8") (rdSlice (declared T v) fixed n)

def utf8S (T : Bytes) (v : View) (o n : Nat) : Obs :=
  resS (fun bytes => if validUtf8 bytes then s!"s({roff v o}:{n}:{hex64 (fnv bytes)})" else "e:Utf8") (rdSlice T o n)

/-- getter wrapper -/
def getter (name : String) (g : Res (Option View)) (body : View → Obs) : Obs :=
  t (name ++ "=") ++
  (match g with
   | .ok none => t "-"
   | .ok (some v) => t (s!"@{8 + v.off}:{v.sov}" ++ "{") ++ body v ++ t "}"
   | .panic => t "P" | .oob => [.oob] | .ub => [.ub]) ++ t ";"

def endS : End → Obs
  | .done => t "]." | .bad => t "]!" | .oob => t "]" ++ [.oob] | .ub => t "]" ++ [.ub]

def efiS (T : Bytes) (v : View) : Obs :=
  t "areas=" ++
  resO (fun (ds, cnt) =>
     t s!"[len={cnt}|" ++
     ((List.range cnt).map fun i =>
       resS (fun d => "{" ++ s!"@{roff v d.off},ty={d.ty},phys={d.phys},virt={d.virt},pages={d.pages},att={d.att},rem={cnt - i - 1}" ++ "}")
         (efiDesc T ds i)).flatten ++ t "].rem=0") (efiEntries T v) ++ t ","

def boolS (b : Bool) : String := if b then "true" else "false"

def elfSecS (s : ElfSec) : String :=
  "{" ++ s!"type={s.typ.discr},raw={s.raw},flags={s.flags},start={s.start},end={s.end},size={s.size},align={s.align},alloc={boolS (s.flags / 2 % 2 == 1)},rem={s.rem}" ++ "}"

def elfS (T : Bytes) (v : View) : Obs :=
  fields T (Kind.fields .elf) ++ t "sections=" ++
  resO (fun (num, es) => let r := elfIter T es num 20; t ("[" ++ String.join (r.1.map elfSecS)) ++ endS r.2) (elfOpen T v) ++ t ","

def fbTypeS (T : Bytes) (v : View) : Res (Ex Nat FbType) → Obs
  | .ok (.error b) => t s!"unknown:{b}"
  | .ok (.ok (.indexed po num)) =>
    resS (fun pal => s!"indexed({roff v po}:{num}:{hex64 (fnv (pal.take 4096))})") (rdSlice (declared T v) po (num * 3))
  | .ok (.ok (.rgb a b c d e f)) => t s!"rgb({a}:{b}:{c}:{d}:{e}:{f})"
  | .ok (.ok .text) => t "text"
  | .panic => t "P" | .oob => [.oob] | .ub => [.ub]

def fbS (T : Bytes) (v : View) : Obs :=
  fields T (Kind.fields .fb) ++
  t "type=" ++ fbTypeS T v (fbBufferType T v) ++ t ","

def mmapS (T : Bytes) (v : View) : Obs :=
  fields T (Kind.fields .mmap) ++ t "areas=" ++
  resS (fun as => s!"[{roff v 16}:{as.length}|" ++
       String.join (as.map fun a => "{" ++ s!"start={a.start},end={a.end},size={a.size},typ={a.typ}," ++ "}") ++ "]")
    (memoryAreas T v) ++ t ","

def colonJoin (l : List (Res Nat)) : Obs :=
  match l with
  | [] => []
  | r :: rest => resS toString r ++ (rest.map fun x => t ":" ++ resS toString x).flatten

def vbeS (T : Bytes) : Obs :=
  fields T (Kind.fields .vbe) ++
  t "ci=" ++ colonJoin (vbeControlFields.map fun (o, w) => rdW T o w) ++ t "," ++
  t "mi=" ++ colonJoin (vbeModeFields.map (fun (o, w) => rdW T o w) ++ [.ok 0, .ok 0]) ++ t ","

def isOkSome {α} : Res (Option α) → Bool
  | .ok (some _) => true | _ => false
def isPanic {α} : Res α → Bool
  | .panic => true | _ => false

def walkEndS : End → Obs
  | .done => t "|done" | .bad => t "|panic" | .oob => t "|" ++ [.oob] | .ub => t "|" ++ [.ub]

/-- `tags()` drained -/
def tagsS (w : List Item × End) : Obs :=
  t ("tags=" ++ String.join (w.1.map fun it => s!"{8 + it.off}:{it.typ}:{it.size}:{it.pl},")) ++ walkEndS w.2 ++ t ";"

def rsdpS (T : Bytes) (v : View) (valid : Res Bool) (k : Kind) : Obs :=
  t "signature=" ++ utf8S T v 8 8 ++ t ",valid=" ++ resS boolS valid ++ t ",oem_id=" ++ utf8S T v 17 6 ++ t "," ++
  fields T k.fields

def smbiosS (T : Bytes) (v : View) : Obs :=
  fields T (Kind.fields .smbios) ++ t "tables=" ++
  resS (fun tb => s!"b({roff v 16}:{v.n}:{hex64 (fnv tb)})") (rdSlice (declared T v) 16 v.n) ++ t ","

def moduleS (T : Bytes) (v : View) : Obs :=
  t (s!"@{8 + v.off}:{v.sov}" ++ "{") ++ fields T (Kind.fields .module) ++
    fld "size" (do let a ← rd32 T 8; let b ← rd32 T 12; pure (b - a)) ++
    t "cmdline=" ++ strS T v 16 v.n ++ t "," ++ t "}"

/-- the asserts of the deprecated `elf_sections()` in front of `sections()` -/
def elfSectionsOpen (T : Bytes) (v : View) : Res (Nat × Nat) := do
  let es ← rd32 T 12
  let sh ← rd32 T 16
  if es * sh > v.size then .panic else elfOpen T v

/-- deprecated `elf_sections()`: asserts, then the section count and the drained iterator -/
def elfSectionsS (T : Bytes) (v : View) : Obs :=
  resO (fun (x : Nat × Nat) =>
    t (toString x.1 ++ "[" ++ String.join ((elfIter T x.2 x.1 20).1.map elfSecS)) ++ endS (elfIter T x.2 x.1 20).2)
    (elfSectionsOpen T v)

def fbGetterS (area : Bytes) (fbG : Res (Option View)) : Obs :=
  t "fb=" ++
  (match fbG with
   | .ok none => t "-"
   | .ok (some v) =>
     (match fbBufferType (v.bytes area) v with
      | .panic => t "P" | .oob => [.oob] | .ub => [.ub]
      | .ok (.error b) => t s!"unknown:{b}"
      | .ok (.ok _) => t (s!"@{8 + v.off}:{v.sov}" ++ "{") ++ fbS (v.bytes area) v ++ t "}")
   | .panic => t "P" | .oob => [.oob] | .ub => [.ub]) ++ t ";"

/-- `module_tags()` drained -/
def modulesS (area : Bytes) (mods : List View × End) : Obs :=
  t "modules=[" ++ (mods.1.map fun v => moduleS (v.bytes area) v).flatten ++ endS mods.2 ++ t ";"

def elfSectionsGetterS (area : Bytes) (elfG : Res (Option View)) : Obs :=
  t "elf_sections=" ++
    (match elfG with
     | .ok none => t "-"
     | .ok (some v) => elfSectionsS (v.bytes area) v
     | .panic => t "P" | .oob => [.oob] | .ub => [.ub]) ++ t ";"

/-- the whole sweep of a loaded region `R` (declared size = `R.length`) -/
def sweepLoaded (p : Profile) (R : Bytes) : Obs :=
  let area := R.drop 8
  let w := tagsOf p .tag area
  let ext (v : View) : Bytes := v.bytes area
  let g (k : Kind) := getTag p area k
  let simple (name : String) (k : Kind) := getter name (g k) (fun v => fields (ext v) k.fields)
  -- efi_memory_map_tag(): withheld while a boot-services-not-exited tag is present
  let efiG : Res (Option View) := efiMemoryMapTag p area
  -- framebuffer_tag(): get_tag + buffer_type()
  let fbG := g .fb
  let mods := moduleViews p area
  let modS := modulesS area mods
  -- deprecated elf_sections()
  let elfG := g .elf
  let elfSecs := elfSectionsGetterS area elfG
  -- Debug: panics iff the walk is bad, a getter panics, or one of the Debug impls that call checked accessors panics
  let getters := [g .apm, g .meminfo, g .loader, g .bootdev, g .cmdline, g .efiBs, g .efiIh32, g .efiIh64, efiG,
                  g .efiSdt32, g .efiSdt64, elfG, fbG, g .loadBase, g .mmap, g .network, g .rsdp1, g .rsdp2, g .smbios, g .vbe]
  let efiDbgPanics := match efiG with
    | .ok (some v) => isPanic (efiEntries (ext v) v)
    | _ => false
  let elfDbgPanics := match elfG with
    | .ok (some v) =>
      (match elfOpen (ext v) v with
       | .ok (num, es) => num ≠ 0 ∧ es ≠ 40 ∧ es ≠ 64
       | _ => true)
    | _ => false
  let fbDbgPanics := match fbG with
    | .ok (some v) => isPanic (fbBufferType (ext v) v)
    | _ => false
  let dbgPanics := w.2 != .done || getters.any isPanic || efiDbgPanics || elfDbgPanics || fbDbgPanics || mods.2 != .done
  tagsS w ++
  simple "apm" .apm ++ simple "meminfo" .meminfo ++
  getter "loader" (g .loader) (fun v => fields (ext v) (Kind.fields .loader) ++ t "name=" ++ strS (ext v) v 8 v.n ++ t ",") ++
  simple "bootdev" .bootdev ++
  getter "cmdline" (g .cmdline) (fun v => t "cmdline=" ++ strS (ext v) v 8 v.n ++ t ",") ++
  simple "efi_bs" .efiBs ++ simple "efi_ih32" .efiIh32 ++ simple "efi_ih64" .efiIh64 ++
  getter "efi_mmap" efiG (fun v => efiS (ext v) v) ++
  simple "efi_sdt32" .efiSdt32 ++ simple "efi_sdt64" .efiSdt64 ++
  getter "elf" elfG (fun v => elfS (ext v) v) ++
  fbGetterS area fbG ++
  simple "load_base" .loadBase ++
  getter "mmap" (g .mmap) (fun v => mmapS (ext v) v) ++
  modS ++
  simple "network" .network ++
  getter "rsdp1" (g .rsdp1) (fun v => rsdpS (ext v) v (rsdp1Valid (ext v)) .rsdp1) ++
  getter "rsdp2" (g .rsdp2) (fun v => rsdpS (ext v) v (rsdp2Valid (ext v)) .rsdp2) ++
  getter "smbios" (g .smbios) (fun v => smbiosS (ext v) v) ++
  getter "vbe" (g .vbe) (fun v => vbeS (ext v)) ++
  elfSecs ++
  t ("debug=" ++ (if dbgPanics then "P" else "ok") ++ ";")

def memErrStr : MemErr → String
  | .null => "Null" | .wrongAlignment => "WrongAlignment" | .shorterThanHeader => "ShorterThanHeader"
  | .missingPadding => "MissingPadding" | .invalidReportedTotalSize => "InvalidReportedTotalSize"

/-- SWEEP on the memory behind the pointer -/
def sweep (p : Profile) (mem : Bytes) : Obs :=
  match load p false mem with
  | .ok (.ok l) => t s!"ld=ok({l.start}:{l.end}:{l.total});" ++ sweepLoaded p (mem.take l.total)
  | .ok (.error (.memory e)) => t s!"ld=err:{memErrStr e};"
  | .ok (.error .noEndTag) => t "ld=err:NoEndTag;"
  | .panic => t "ld=panic;" | .oob => t "ld=" ++ [.oob] ++ t ";" | .ub => t "ld=" ++ [.ub] ++ t ";"

end Sweep
end Mb2
