/-
  Mb2.Ids — model of the identifier conversions (tag_type.rs, memory_map.rs, elf_sections.rs, framebuffer.rs)
  and the exported magic constants.
-/
import Mb2.Basic
namespace Mb2

/-- `multiboot2::TagType` -/
inductive TagType where
  | end_ | cmdline | bootLoaderName | module | basicMeminfo | bootdev | mmap | vbe | framebuffer | elfSections
  | apm | efi32 | efi64 | smbios | acpiV1 | acpiV2 | network | efiMmap | efiBs | efi32Ih | efi64Ih | loadBaseAddr
  | custom (v : UInt32)
deriving Repr, DecidableEq, Inhabited

/-- `impl From<u32> for TagType` -/
def TagType.ofU32 (v : UInt32) : TagType :=
  match v with
  | 0 => .end_ | 1 => .cmdline | 2 => .bootLoaderName | 3 => .module | 4 => .basicMeminfo | 5 => .bootdev
  | 6 => .mmap | 7 => .vbe | 8 => .framebuffer | 9 => .elfSections | 10 => .apm | 11 => .efi32 | 12 => .efi64
  | 13 => .smbios | 14 => .acpiV1 | 15 => .acpiV2 | 16 => .network | 17 => .efiMmap | 18 => .efiBs
  | 19 => .efi32Ih | 20 => .efi64Ih | 21 => .loadBaseAddr
  | c => .custom c

/-- `impl From<TagType> for u32` -/
def TagType.toU32 : TagType → UInt32
  | .end_ => 0 | .cmdline => 1 | .bootLoaderName => 2 | .module => 3 | .basicMeminfo => 4 | .bootdev => 5
  | .mmap => 6 | .vbe => 7 | .framebuffer => 8 | .elfSections => 9 | .apm => 10 | .efi32 => 11 | .efi64 => 12
  | .smbios => 13 | .acpiV1 => 14 | .acpiV2 => 15 | .network => 16 | .efiMmap => 17 | .efiBs => 18
  | .efi32Ih => 19 | .efi64Ih => 20 | .loadBaseAddr => 21
  | .custom c => c

/-- `TagType::val` (delegates to `u32::from`) -/
def TagType.val (t : TagType) : UInt32 := t.toU32

/-- variant index used by the driver / harness signature (declaration order) -/
def TagType.index : TagType → UInt32
  | .custom _ => 22
  | t => t.toU32

/-- `#[repr(transparent)] struct TagTypeId(u32)` -/
structure TagTypeId where
  val : UInt32
deriving Repr, DecidableEq, Inhabited

def TagTypeId.ofU32 (v : UInt32) : TagTypeId := ⟨v⟩           -- transmute
def TagTypeId.toU32 (i : TagTypeId) : UInt32 := i.val
def TagTypeId.toTagType (i : TagTypeId) : TagType := TagType.ofU32 i.toU32
def TagType.toId (t : TagType) : TagTypeId := TagTypeId.ofU32 t.toU32

/-! the six `PartialEq` impls of tag_type.rs -/
def eqTypeId (t : TagType) (i : TagTypeId) : Bool := t.toU32 == i.toU32
def eqIdType (i : TagTypeId) (t : TagType) : Bool := eqTypeId t i
def eqIdU32 (i : TagTypeId) (v : UInt32) : Bool := i.toU32 == v
def eqU32Id (v : UInt32) (i : TagTypeId) : Bool := eqIdU32 i v
def eqTypeU32 (t : TagType) (v : UInt32) : Bool := t.toU32 == v
def eqU32Type (v : UInt32) (t : TagType) : Bool := eqTypeU32 t v

/-- `multiboot2::MemoryAreaType` -/
inductive MemoryAreaType where
  | available | reserved | acpiAvailable | reservedHibernate | defective | custom (v : UInt32)
deriving Repr, DecidableEq, Inhabited

def MemoryAreaType.ofU32 (v : UInt32) : MemoryAreaType :=
  match v with
  | 1 => .available | 2 => .reserved | 3 => .acpiAvailable | 4 => .reservedHibernate | 5 => .defective
  | c => .custom c
def MemoryAreaType.toU32 : MemoryAreaType → UInt32
  | .available => 1 | .reserved => 2 | .acpiAvailable => 3 | .reservedHibernate => 4 | .defective => 5
  | .custom c => c
def MemoryAreaType.index : MemoryAreaType → UInt32
  | .custom _ => 0
  | t => t.toU32
/-- `PartialEq<MemoryAreaType> for MemoryAreaTypeId` and its mirror -/
def eqMatIdType (i : UInt32) (t : MemoryAreaType) : Bool := i == t.toU32
def eqMatTypeId (t : MemoryAreaType) (i : UInt32) : Bool := i == t.toU32

/-- `ElfSectionType` as classified by `ElfSection::section_type` -/
inductive ElfSectionType where
  | unused | programSection | linkerSymbolTable | stringTable | relaRelocation | symbolHashTable
  | dynamicLinkingTable | note | uninitialized | relRelocation | reserved | dynamicLoaderSymbolTable
  | environmentSpecific | processorSpecific
deriving Repr, DecidableEq, Inhabited

def ElfSectionType.classify (n : Nat) : ElfSectionType :=
  if n = 0 then .unused else if n = 1 then .programSection else if n = 2 then .linkerSymbolTable
  else if n = 3 then .stringTable else if n = 4 then .relaRelocation else if n = 5 then .symbolHashTable
  else if n = 6 then .dynamicLinkingTable else if n = 7 then .note else if n = 8 then .uninitialized
  else if n = 9 then .relRelocation else if n = 10 then .reserved else if n = 11 then .dynamicLoaderSymbolTable
  else if 0x60000000 ≤ n ∧ n ≤ 0x6FFFFFFF then .environmentSpecific
  else if 0x70000000 ≤ n ∧ n ≤ 0x7FFFFFFF then .processorSpecific
  else .unused

def ElfSectionType.ofRaw (v : UInt32) : ElfSectionType := ElfSectionType.classify v.toNat

/-- the enum's `repr(u32)` discriminant -/
def ElfSectionType.discr : ElfSectionType → Nat
  | .unused => 0 | .programSection => 1 | .linkerSymbolTable => 2 | .stringTable => 3 | .relaRelocation => 4
  | .symbolHashTable => 5 | .dynamicLinkingTable => 6 | .note => 7 | .uninitialized => 8 | .relRelocation => 9
  | .reserved => 10 | .dynamicLoaderSymbolTable => 11 | .environmentSpecific => 0x60000000
  | .processorSpecific => 0x70000000

/-- `FramebufferTypeId::try_from(u8)`: `some 0/1/2` = Indexed/RGB/Text, `none` = `UnknownFramebufferType(b)` -/
def fbTypeOfByte (b : Nat) : Option Nat := if b = 0 then some 0 else if b = 1 then some 1 else if b = 2 then some 2 else none

/-- exported constants -/
def MBI_MAGIC : UInt32 := 0x36d76289
def HEADER_MAGIC : UInt32 := 0xe85250d6

/-- per-value signatures folded by the exhaustive block hashing (the harness computes the same from the real API) -/
def sigTagType (v : UInt32) : UInt64 :=
  let t := TagType.ofU32 v
  let i := TagTypeId.ofU32 v
  let w := v ^^^ 1
  let bits : UInt32 :=
    (if eqTypeId t i then 1 else 0) ||| (if eqIdType i t then 2 else 0) ||| (if eqIdU32 i v then 4 else 0) |||
    (if eqU32Id v i then 8 else 0) ||| (if eqTypeU32 t v then 16 else 0) ||| (if eqU32Type v t then 32 else 0) |||
    (if eqTypeU32 t w then 64 else 0) ||| (if eqIdType i (TagType.ofU32 w) then 128 else 0) |||
    (if eqIdU32 i w then 256 else 0) ||| (if i.toTagType == t then 512 else 0) |||
    (if t.toId == i then 1024 else 0) |||
    (if eqTypeId (.custom v) i then 2048 else 0) ||| (if eqIdType i (.custom v) then 4096 else 0) |||
    (if eqTypeU32 (.custom v) v then 8192 else 0) ||| (if eqU32Type v (.custom v) then 16384 else 0) |||
    (if (TagType.custom v).toU32 == v then 32768 else 0) ||| (if (TagType.custom v).toId == i then 65536 else 0) |||
    (if t.val == v then 131072 else 0) ||| (if (TagType.custom v).val == v then 262144 else 0) |||
    (if TagTypeId.ofU32 v == i then 524288 else 0)
  (t.index.toUInt64 <<< 48) ^^^ (bits.toUInt64 <<< 32) ^^^ (t.toU32.toUInt64) ^^^ (i.toTagType.toId.toU32.toUInt64 <<< 7)

def sigMemType (v : UInt32) : UInt64 :=
  let t := MemoryAreaType.ofU32 v
  let w := v ^^^ 1
  let bits : UInt32 :=
    (if eqMatIdType v t then 1 else 0) ||| (if eqMatTypeId t v then 2 else 0) |||
    (if eqMatIdType w t then 4 else 0) ||| (if eqMatTypeId (MemoryAreaType.ofU32 w) v then 8 else 0) |||
    (if eqMatIdType v (.custom v) then 16 else 0) ||| (if eqMatTypeId (.custom v) v then 32 else 0) |||
    (if (MemoryAreaType.custom v).toU32 == v then 64 else 0)
  (t.index.toUInt64 <<< 48) ^^^ (bits.toUInt64 <<< 32) ^^^ (t.toU32.toUInt64)

def sigElfType (v : UInt32) : UInt64 := UInt64.ofNat (ElfSectionType.ofRaw v).discr

end Mb2
