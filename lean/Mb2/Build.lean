/-
  Mb2.Build — model of the building side: `new_boxed`, `clone_dyn`, the tag constructors, the two builders.
-/
import Mb2.Tags
import Mb2.Header
namespace Mb2

/-- result of `new_boxed`: the bytes of the allocation that are initialised (header with patched size ++ content),
    the allocation size (padding behind `bytes` is uninitialised memory), its alignment, and the size that `Box`
    hands to `dealloc` (= `size_of_val` of the typed box) -/
structure Boxed where
  bytes : Bytes
  allocSize : Nat
  align : Nat
  deallocSize : Nat
deriving Repr, DecidableEq, Inhabited

/-- write the declared size into a header image -/
def setSize (k : HK) (hdr : Bytes) (total : Nat) : Bytes :=
  match k with
  | .hb =>   -- Multiboot2BasicHeader::set_size also recomputes the checksum
    hdr.take 8 ++ enc32 total ++ enc32 (calcChecksum (le32 hdr 0) (le32 hdr 4) (total % 4294967296))
  | _ => hdr.take k.sizeOff ++ enc32 total ++ hdr.drop (k.sizeOff + 4)

/-- `new_boxed::<T>(header, slices)` (boxed.rs). `desc` describes `T`. The final `assert_eq!(size_of_val, alloc_size)` panics
    when the type's own size computation disagrees with the allocation. -/
def newBoxed (p : Profile) (k : HK) (desc : TyDesc) (hdr : Bytes) (slices : List Bytes) : Res Boxed := do
  let content := slices.flatten
  let tagSize := k.hsize + content.length
  let hdr' := setSize k hdr tagSize
  let alloc ← incAlign p tagSize
  let n ← desc.dstLen p tagSize
  let sov := desc.sizeOfVal n
  if sov ≠ alloc then .panic
  else pure ⟨hdr' ++ content, alloc, 8, sov⟩

/-- content of the three string tags: the text, NUL-terminated unless it already ends in NUL -/
def strContent (s : Bytes) : Bytes := if s.getLast? = some 0 then s else s ++ [0]

end Mb2

namespace Mb2

/-! ### constructors. The argument blob is the little-endian encoding of the arguments (see harness/src/ctor_fam.rs). -/

def zeros (n : Nat) : Bytes := List.replicate n 0

/-- image of a constructed tag: type word, declared size, the initialised bytes `[0, size)`, `size_of_val` -/
structure Img where
  typ : Nat
  flags : Option Nat     -- header-crate tags carry flags in the upper half of the first word
  size : Nat
  bytes : Bytes
  sov : Nat
deriving Repr, DecidableEq, Inhabited

def mbiHdr (typ size : Nat) : Bytes := enc32 typ ++ enc32 size
def hdrHdr (typ flags size : Nat) : Bytes := enc16 typ ++ enc16 flags ++ enc32 size

/-- a sized MBI tag built by a struct literal: the size CONSTANT the constructor writes, then the fields in struct order -/
def sizedImg (typ sizeConst : Nat) (payload : Bytes) : Img :=
  ⟨typ, none, sizeConst, mbiHdr typ sizeConst ++ payload, roundUp8 (8 + payload.length)⟩

/-- a boxed MBI tag: `new_boxed(TagHeader::new(ID, 0), slices)` -/
def boxedImg (p : Profile) (typ : Nat) (desc : TyDesc) (slices : List Bytes) : Res Img := do
  let b ← newBoxed p .tag desc (mbiHdr typ 0) slices
  pure ⟨typ, none, 8 + slices.flatten.length, b.bytes, b.deallocSize⟩

def sizedHImg (typ flags sizeConst : Nat) (payload : Bytes) : Img :=
  ⟨typ, some flags, sizeConst, hdrHdr typ flags sizeConst ++ payload, roundUp8 (8 + payload.length)⟩

def chunk24 : Bytes → List Bytes
  | [] => []
  | l => if l.length < 24 then [] else l.take 24 :: chunk24 (l.drop 24)
termination_by l => l.length
decreasing_by simp; omega

/-- `InformationRequestHeaderTag` descriptor: unchecked subtraction, 4-byte elements -/
def infoReqDesc : TyDesc :=
  { baseSize := 8, fixed := 8, align := 8, elem := some 4,
    dstLen := fun p size => do
      let d ← usub p W64 size 8
      if d % 4 ≠ 0 then .panic else .ok (d / 4) }

/-- model of every public constructor (struct field order and size constants as in the Rust sources) -/
def ctorImpl (p : Profile) (name : String) (blob : Bytes) : Res Img :=
  let tk (a n : Nat) := slice blob a n
  match name with
  | "cmdline" => boxedImg p 1 (Kind.desc .cmdline) (if blob.getLast? = some 0 then [blob] else [blob, [0]])
  | "loader" => boxedImg p 2 (Kind.desc .loader) (if blob.getLast? = some 0 then [blob] else [blob, [0]])
  | "module" =>
    if ¬ le32 blob 4 > le32 blob 0 then .panic
    else
      let s := blob.drop 8
      boxedImg p 3 (Kind.desc .module) (if s.getLast? = some 0 then [tk 0 4, tk 4 4, s] else [tk 0 4, tk 4 4, s, [0]])
  | "meminfo" => .ok (sizedImg 4 16 (tk 0 4 ++ tk 4 4))
  | "bootdev" => .ok (sizedImg 5 20 (tk 0 4 ++ tk 4 4 ++ tk 8 4))
  | "mmap" =>
    let areas := (chunk24 blob).map fun a => a.take 20 ++ zeros 4
    boxedImg p 6 (Kind.desc .mmap) [enc32 24, enc32 0, areas.flatten]
  | "vbe" =>
    .ok (sizedImg 7 784 (tk 0 8 ++ (tk 8 34 ++ zeros 222 ++ zeros 256) ++
      (tk 520 27 ++ [UInt8.ofNat (u8At blob 547 % 8)] ++ tk 548 2 ++ [0] ++ tk 551 19 ++ zeros 206)))
  | "fb" =>
    let ty := u8At blob 21
    let rest := blob.drop 24
    let info : Bytes :=
      if ty = 0 then
        let n := (rest.length - 2) / 3
        enc16 n ++ slice rest 2 (3 * n)
      else if ty = 1 then rest.take 6
      else []
    let tyb : Nat := if ty = 0 then 0 else if ty = 1 then 1 else 2
    boxedImg p 8 (Kind.desc .fb) [tk 0 8, tk 8 4, tk 12 4, tk 16 4, [UInt8.ofNat (u8At blob 20)], [UInt8.ofNat tyb], [0, 0], info]
  | "elf" => boxedImg p 9 (Kind.desc .elf) [tk 0 4, tk 4 4, tk 8 4, blob.drop 12]
  | "apm" => .ok (sizedImg 10 28 (tk 0 2 ++ tk 2 2 ++ tk 4 4 ++ tk 8 2 ++ tk 10 2 ++ tk 12 2 ++ tk 14 2 ++ tk 16 2 ++ tk 18 2))
  | "efi32" => .ok (sizedImg 11 12 (tk 0 4))
  | "efi64" => .ok (sizedImg 12 16 (tk 0 8))
  | "smbios" => boxedImg p 13 (Kind.desc .smbios) [[UInt8.ofNat (u8At blob 0), UInt8.ofNat (u8At blob 1)], zeros 6, blob.drop 8]
  | "rsdp1" => .ok (sizedImg 14 28 ([82, 83, 68, 32, 80, 84, 82, 32] ++ tk 8 1 ++ tk 9 6 ++ tk 15 1 ++ tk 16 4))
  | "rsdp2" => .ok (sizedImg 15 44 ([82, 83, 68, 32, 80, 84, 82, 32] ++ tk 8 1 ++ tk 9 6 ++ tk 15 1 ++ tk 16 4 ++ tk 20 4 ++ tk 24 8 ++ tk 32 1 ++ zeros 3))
  | "network" => boxedImg p 16 (Kind.desc .network) [blob]
  | "efimmap" =>
    if le32 blob 0 = 0 then .panic
    else boxedImg p 17 (Kind.desc .efiMmap) [tk 0 4, tk 4 4, blob.drop 8]
  | "efidescs" =>
    let n := blob.length / 40
    let descs := (List.range n).map fun i => slice blob (40 * i) 4 ++ zeros 4 ++ slice blob (40 * i + 8) 32
    boxedImg p 17 (Kind.desc .efiMmap) [enc32 40, enc32 1, descs.flatten]
  | "efibs" => .ok (sizedImg 18 8 [])
  | "ih32" => .ok (sizedImg 19 12 (tk 0 4))
  | "ih64" => .ok (sizedImg 20 16 (tk 0 8))
  | "loadbase" => .ok (sizedImg 21 12 (tk 0 4))
  | "end" => .ok (sizedImg 0 8 [])
  | "h_address" => .ok (sizedHImg 2 (le16 blob 0 % 2) 24 (tk 2 4 ++ tk 6 4 ++ tk 10 4 ++ tk 14 4))
  | "h_console" => .ok (sizedHImg 4 (le16 blob 0 % 2) 12 (enc32 (le32 blob 2 % 2)))
  | "h_end" => .ok (sizedHImg 0 0 8 [])
  | "h_entry" => .ok (sizedHImg 3 (le16 blob 0 % 2) 12 (tk 2 4))
  | "h_efi32" => .ok (sizedHImg 8 (le16 blob 0 % 2) 12 (tk 2 4))
  | "h_efi64" => .ok (sizedHImg 9 (le16 blob 0 % 2) 12 (tk 2 4))
  | "h_fb" => .ok (sizedHImg 5 (le16 blob 0 % 2) 20 (tk 2 4 ++ tk 6 4 ++ tk 10 4))
  | "h_modalign" => .ok (sizedHImg 6 (le16 blob 0 % 2) 8 [])
  | "h_efibs" => .ok (sizedHImg 7 (le16 blob 0 % 2) 8 [])
  | "h_reloc" => .ok (sizedHImg 10 (le16 blob 0 % 2) 24 (tk 2 4 ++ tk 6 4 ++ tk 10 4 ++ enc32 (le32 blob 14 % 3)))
  | "h_inforeq" => do
    let ids := slice blob 2 ((blob.length - 2) / 4 * 4)
    let b ← newBoxed p .ht infoReqDesc (hdrHdr 1 (le16 blob 0 % 2) 0) [ids]
    pure ⟨1, some (le16 blob 0 % 2), 8 + ids.length, b.bytes, b.deallocSize⟩
  | _ => .panic

end Mb2

namespace Mb2

/-- `DynSizedStructure<H>` itself as target type: `dst_len = header.payload_len()` -/
def genericDesc (k : HK) : TyDesc :=
  { baseSize := k.hsize, fixed := k.hsize, align := 8, elem := some 1, dstLen := fun p size => payloadLen p k size }

/-- `clone_dyn(tag)`: `new_boxed(tag.header().clone(), &[&tag.payload()[..tag.header().payload_len()]])`.
    `T` = the bytes of the tag's in-memory extent (`size_of_val` bytes). -/
def cloneDyn (p : Profile) (k : HK) (desc : TyDesc) (T : Bytes) : Res Boxed := do
  let size ← rd32 T k.sizeOff
  let pl ← payloadLen p k size
  -- `tag.payload()` = as_bytes()[hsize..]; slicing it to `pl` panics when the header claims more than the view holds
  if pl > T.length - k.hsize then .panic
  else newBoxed p k desc (T.take k.hsize) [slice T k.hsize pl]

end Mb2

namespace Mb2

/-! ### the two builders -/

/-- `as_bytes()` of a constructed tag: its `size_of_val` bytes (the padding behind `size` is uninitialised; modelled as 0) -/
def Img.asBytes (i : Img) : Bytes := i.bytes ++ zeros (i.sov - i.bytes.length)

/-- builder slots of `multiboot2::Builder` in the order `build()` emits them; `true` = repeatable (a `Vec`) -/
def mbiSlots : List (String × Bool) :=
  [("cmdline", false), ("loader", false), ("module", true), ("meminfo", false), ("bootdev", false), ("mmap", false),
   ("vbe", false), ("fb", false), ("elf", false), ("apm", false), ("efi32", false), ("efi64", false), ("smbios", true),
   ("rsdp1", false), ("rsdp2", false), ("network", false), ("efimmap", false), ("efibs", false), ("ih32", false),
   ("ih64", false), ("loadbase", false), ("custom", true)]

/-- slots of `multiboot2_header::Builder` in emission order -/
def hdrSlots : List (String × Bool) :=
  [("h_inforeq", false), ("h_address", false), ("h_entry", false), ("h_console", false), ("h_fb", false), ("h_modalign", false),
   ("h_efibs", false), ("h_efi32", false), ("h_efi64", false), ("h_reloc", false)]

/-- builder state: per slot the stored tags -/
abbrev BState := List (String × List Img)

def BState.get (st : BState) (slot : String) : List Img :=
  match st.find? (·.1 == slot) with | some x => x.2 | none => []

/-- a builder method: assignment for `Option` slots, push for `Vec` slots -/
def BState.put (st : BState) (slot : String) (multi : Bool) (img : Img) : BState :=
  (slot, if multi then st.get slot ++ [img] else [img]) :: st.filter (·.1 != slot)

/-- the tag an op hands to the builder (the real constructor of that kind; `custom`: a generic tag via new_boxed) -/
def opImg (p : Profile) (name : String) (blob : Bytes) : Res Img :=
  if name = "custom" then
    if le32 blob 0 ≤ 21 then .panic      -- add_custom_tag: "Only for custom types!"
    else boxedImg p (le32 blob 0) (genericDesc .tag) [blob.drop 4]
  else ctorImpl p name blob

def runOps (p : Profile) (slots : List (String × Bool)) : BState → List (String × Bytes) → Res BState
  | st, [] => .ok st
  | st, (name, blob) :: ops =>
    match opImg p name blob with
    | .ok img =>
      let multi := match slots.find? (·.1 == name) with | some x => x.2 | none => false
      runOps p slots (st.put name multi img) ops
    | .panic => .panic | .oob => .oob | .ub => .ub

/-- `Builder::build()` of the boot-information builder -/
def buildMbi (p : Profile) (ops : List (String × Bytes)) : Res Boxed := do
  let st ← runOps p mbiSlots [] ops
  let tags := mbiSlots.flatMap fun s => st.get s.1
  newBoxed p .bi (genericDesc .bi) (enc32 0 ++ enc32 0) (tags.map Img.asBytes ++ [(sizedImg 0 8 []).asBytes])

/-- `Builder::build()` of the header builder -/
def buildHdr (p : Profile) (arch : Nat) (ops : List (String × Bytes)) : Res Boxed := do
  let st ← runOps p hdrSlots [] ops
  let tags := hdrSlots.flatMap fun s => st.get s.1
  let hdr0 := enc32 HMAGIC ++ enc32 arch ++ enc32 0 ++ enc32 (calcChecksum HMAGIC arch 0)
  newBoxed p .hb (genericDesc .hb) hdr0 (tags.map Img.asBytes ++ [(sizedHImg 0 0 8 []).asBytes])

end Mb2
