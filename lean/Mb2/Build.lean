/-
  Mb2.Build — model of the building side: `new_boxed`, `clone_dyn`, the tag constructors, the two builders.
-/
import Mb2.Tags
namespace Mb2

/-- result of `new_boxed`: the bytes of the allocation that are initialised (header with patched size ++ content),
    the allocation size (padding behind `bytes` is uninitialised memory), its alignment, and the size that `Box`
    hands to `dealloc` (= `size_of_val` of the typed box) -/
structure Boxed where
  bytes : Bytes
  allocSize : Nat
  align : Nat
  deallocSize : Nat
deriving Repr, DecidableEq, Inhabited

/-- write the declared size into a header image -/
def setSize (k : HK) (hdr : Bytes) (total : Nat) : Bytes :=
  hdr.take k.sizeOff ++ enc32 total ++ hdr.drop (k.sizeOff + 4)

/-- `new_boxed::<T>(header, slices)` (boxed.rs). `desc` describes `T`. The final `assert_eq!(size_of_val, alloc_size)` panics
    when the type's own size computation disagrees with the allocation. -/
def newBoxed (p : Profile) (k : HK) (desc : TyDesc) (hdr : Bytes) (slices : List Bytes) : Res Boxed := do
  let content := slices.flatten
  let tagSize := k.hsize + content.length
  let hdr' := setSize k hdr tagSize
  let alloc ← incAlign p tagSize
  let n ← desc.dstLen p tagSize
  let sov := desc.sizeOfVal n
  if sov ≠ alloc then .panic
  else pure ⟨hdr' ++ content, alloc, 8, sov⟩

/-- content of the three string tags: the text, NUL-terminated unless it already ends in NUL -/
def strContent (s : Bytes) : Bytes := if s.getLast? = some 0 then s else s ++ [0]

end Mb2
