/-
  Mb2.Driver — line protocol: one case per line in, one canonical observation line out (model side).
  The same case file is fed to the Rust harness; check.py diffs the two streams.
-/
import Mb2.Mbi
import Mb2.Spec
import Mb2.Ids
import Mb2.Sweep
import Mb2.Build
import Mb2.HTags
namespace Mb2.Driver
open Mb2

def hexVal (c : UInt8) : UInt8 :=
  if c ≥ 48 ∧ c ≤ 57 then c - 48 else if c ≥ 97 ∧ c ≤ 102 then c - 87 else if c ≥ 65 ∧ c ≤ 70 then c - 55 else 0

def unhex (s : String) : Bytes :=
  if s == "-" then [] else
  let b := s.toUTF8
  let n := b.size / 2
  (List.range n).map fun i => hexVal (b.get! (2*i)) * 16 + hexVal (b.get! (2*i+1))

def hexDigit (n : Nat) : Char := if n < 10 then Char.ofNat (48 + n) else Char.ofNat (87 + n)
def hex64 (v : UInt64) : String :=
  String.ofList ((List.range 16).map fun i => hexDigit ((v >>> (UInt64.ofNat (60 - 4*i))) &&& 15).toNat)

def profileOf (s : String) : Profile := if s == "release" then .release else .dev

def memErrStr : MemErr → String
  | .null => "Null" | .wrongAlignment => "WrongAlignment" | .shorterThanHeader => "ShorterThanHeader"
  | .missingPadding => "MissingPadding" | .invalidReportedTotalSize => "InvalidReportedTotalSize"

def hkOf (s : String) : Option HK :=
  match s with
  | "tag" => some .tag | "bi" => some .bi | "hb" => some .hb | "ht" => some .ht | "dummy" => some .dummy
  | _ => none

def resStr {α} (f : α → String) : Res α → String
  | .ok a => f a | .panic => "panic" | .oob => "OOB" | .ub => "UB"

def refCase (p : Profile) (t : List String) : String :=
  match t with
  | [_, ks, ms, hx] =>
    match hkOf ks with
    | none => s!"unknown-kind:{ks}"
    | some k =>
      let mis := ms.toNat!
      let bytes := unhex hx
      resStr (fun
        | .error e => s!"err:{memErrStr e}"
        | .ok pl =>
          let avail := bytes.length - k.hsize
          s!"ok off=0 pl={pl} sov={dynSizeOfVal k pl} hh={hex64 (fnv (bytes.take k.hsize))} ph={hex64 (fnv (slice bytes k.hsize (min pl avail)))}")
        (refFromSlice p k mis bytes)
  | _ => "bad-case"

def loadCase (p : Profile) (t : List String) : String :=
  match t with
  | [_, n, hx] =>
    resStr (fun
      | .error (.memory e) => s!"err:{memErrStr e}"
      | .error .noEndTag => "err:NoEndTag"
      | .ok l => s!"ok start={l.start} end={l.end} total={l.total}")
      (load p (n == "1") (unhex hx))
  | _ => "bad-case"

/-- LOADBIG <declared> <reserved> <hex of the last 8 bytes>: the closed form of `load` (`C02.load_eq_closed`) -/
def loadbigCase (t : List String) : String :=
  match t with
  | [_, d, r, hx] =>
    let declared := d.toNat!
    let tail := unhex hx
    -- a declared size of 8 makes the header its own "last 8 bytes"
    let (w0, w1) := if declared ≥ 16 then (le32 tail 0, le32 tail 4) else (declared, r.toNat!)
    resStr (fun
      | .error (.memory e) => s!"err:{memErrStr e}"
      | .error .noEndTag => "err:NoEndTag"
      | .ok l => s!"ok start={l.start} end={l.end} total={l.total}")
      (loadClosed declared w0 w1)
  | _ => "bad-case"

/-- DEPTH <n> <modules>: the region is a uniform tiling (n tags of size 8, then the module tags of size 20, then the end tag), so
    the walk of `C03.tags_eq_spec` has n + modules + 1 items and `modules` of them are modules, the first one starting at 0x1000;
    the closed form is printed (the list-based model walk is quadratic in the number of tags) -/
def depthCase (t : List String) : String :=
  match t with
  | [_, n, m] =>
    let n := n.toNat!
    let m := m.toNat!
    let first := if m = 0 then "None" else "Some(4096)"
    s!"tags={n + m + 1} modules={m} first={first} cmdline_absent=true"
  | _ => "bad-case"

def itemStr (k : HK) (buf : Bytes) (it : Item) : String :=
  s!"item({it.off},{it.typ},{it.size},{it.pl},{it.off + k.hsize},{hex64 (fnv (slice buf (it.off + k.hsize) it.pl))})"

def parseOps (rest : List String) : List IterOp :=
  let toks := match rest with
    | [o] => (o.splitOn ",").filter (fun s => s != "" && s != "-")
    | _ => []
  toks.filterMap fun op =>
    let c := op.take 1 |>.toString
    let i := (op.drop 1).toString.toNat!
    if c == "f" then some .fresh else if c == "c" then some (.clone i) else if c == "n" then some (.next i) else none

def obsStr (k : HK) (buf : Bytes) : IterObs → Option String
  | .item it => some (itemStr k buf it)
  | .none => some "none" | .panic => some "panic" | .cloned => some "c" | .dead => some "dead"
  | .oob => some "OOB" | .ub => some "UB" | .fresh => none

def walkCase (p : Profile) (t : List String) : String :=
  match t with
  | _ :: ks :: hx :: rest =>
    match hkOf ks with
    | none => s!"unknown-kind:{ks}"
    | some k =>
      let buf := unhex hx
      ";".intercalate ((poolRun p k buf [some 0] (parseOps rest)).filterMap (obsStr k buf))
  | _ => "bad-case"

def rndCase (p : Profile) (t : List String) : String :=
  match t with
  | [_, n] => resStr toString (incAlign p n.toNat!)
  | _ => "bad-case"


/-! ### spec side: render the admissible outcome set as a pattern (`a||b`, trailing `*` = prefix) -/
def expectStr {ε α} (f : Out ε α → String) : Expect ε α → String
  | .exactly o => f o
  | .rejected => "panic||err:*"
  | .rejectedOr a => "panic||err:*||" ++ f (.ok (.ok a))
  | .anything => "*"

def refOutStr (k : HK) (bytes : Bytes) : Out MemErr Nat → String :=
  resStr (fun
    | .error e => s!"err:{memErrStr e}"
    | .ok pl =>
      let avail := bytes.length - k.hsize
      s!"ok off=0 pl={pl} sov={dynSizeOfVal k pl} hh={hex64 (fnv (bytes.take k.hsize))} ph={hex64 (fnv (slice bytes k.hsize (min pl avail)))}")

def loadOutStr : Out LoadErr Loaded → String :=
  resStr (fun
    | .error (.memory e) => s!"err:{memErrStr e}"
    | .error .noEndTag => "err:NoEndTag"
    | .ok l => s!"ok start={l.start} end={l.end} total={l.total}")

def specRef (t : List String) : String :=
  match t with
  | [_, ks, ms, hx] =>
    match hkOf ks with
    | none => "*"
    | some k => let bytes := unhex hx; expectStr (refOutStr k bytes) (Spec.refFromSlice k ms.toNat! bytes)
  | _ => "*"

def specLoad (t : List String) : String :=
  match t with
  | [_, n, hx] => expectStr loadOutStr (Spec.load (n == "1") (unhex hx))
  | _ => "*"

def specWalk (t : List String) : String :=
  match t with
  | _ :: ks :: hx :: rest =>
    match hkOf ks with
    | none => "*"
    | some k =>
      let buf := unhex hx
      if buf.length % 8 ≠ 0 then "*" else
      let w := Spec.tagsOf k buf
      ";".intercalate ((Spec.absRun w.1 w.2 [some 0] (parseOps rest)).filterMap (obsStr k buf))
  | _ => "*"

/-- FBT <byte> [<hex colour info>]: `FramebufferTag::buffer_type` (the model's `fbBufferType`) on a tag with that type byte
    and that colour-info field (default 01 00 03 04 05 06) -/
def fbtCase (t : List String) : String :=
  let go (b : String) (info : Bytes) : String :=
    let T : Bytes := enc32 8 ++ enc32 (32 + info.length) ++ (List.replicate 20 0 : Bytes) ++ ([32, UInt8.ofNat (b.toNat! % 256), 0, 0] : Bytes) ++ info
    match fbBufferType T ⟨0, 32 + info.length, 0, info.length⟩ with
    | .ok (.ok (.indexed _ num)) => s!"known:0 palette={num}"
    | .ok (.ok (.rgb ..)) => "known:1"
    | .ok (.ok .text) => "known:2"
    | .ok (.error tb) => s!"unknown:{tb}"
    | .panic => "panic" | .oob => "oob" | .ub => "ub"
  match t with
  | [_, b] => go b [1, 0, 3, 4, 5, 6]
  | [_, b, hx] => go b (unhex hx)
  | _ => "bad-case"

/-- the specification's classification: 0 / 1 / 2 are the known types (too little colour information for an indexed or RGB
    tag may be rejected by a controlled panic), every other byte is reported as unknown, carrying that byte -/
def specFbt (t : List String) : String :=
  match t with
  | _ :: b :: _ => let n := b.toNat!; if n ≤ 2 then s!"known:{n}*||panic" else s!"unknown:{n}"
  | _ => "*"

def magicCase : String := s!"{(hex64 MBI_MAGIC.toUInt64).drop 8} {(hex64 HEADER_MAGIC.toUInt64).drop 8}"


def hex32 (v : Nat) : String := ((hex64 (UInt64.ofNat v)).drop 8).toString

def hloadOutStr : Out HLoadErr HLoaded → String :=
  resStr (fun
    | .error (.memory e) => s!"err:{memErrStr e}"
    | .error .magicNotFound => "err:MagicNotFound"
    | .error .checksumMismatch => "err:ChecksumMismatch"
    | .ok h => s!"ok magic={hex32 h.magic} arch={h.arch} length={h.length} checksum={hex32 h.checksum} verify=true")

def hloadCase (p : Profile) (t : List String) : String :=
  match t with
  | [_, n, hx] => hloadOutStr (hload p (n == "1") (unhex hx))
  | _ => "bad-case"

def specHload (t : List String) : String :=
  match t with
  | [_, n, hx] => expectStr hloadOutStr (Spec.hload (n == "1") (unhex hx))
  | _ => "*"

def cksCase (t : List String) : String :=
  match t with
  | [_, m, a, l] => toString (calcChecksum m.toNat! a.toNat! l.toNat!)
  | _ => "bad-case"

/-- independent of the model: the unique c < 2^32 with (m + a + l + c) % 2^32 = 0 -/
def specCks (t : List String) : String :=
  match t with
  | [_, m, a, l] => let s := (m.toNat! + a.toNat! + l.toNat!) % 4294967296; toString ((4294967296 - s) % 4294967296)
  | _ => "*"

def sparseBuf (len : Nat) (sp : String) : Bytes :=
  let parts := (sp.splitOn ",").filter (fun s => s != "" && s != "-")
  let arr := parts.foldl (fun (a : Array UInt8) part =>
    match part.splitOn ":" with
    | [o, h] =>
      let off := o.toNat!
      let b := unhex h
      (List.range b.length).foldl (fun a i => if off + i < a.size then a.set! (off + i) (b.getD i 0) else a) a
    | _ => a) (Array.replicate len (0 : UInt8))
  arr.toList

def findOutStr (buf : Bytes) : Res (Ex HLoadErr (Option (Nat × Nat))) → String :=
  resStr (fun
    | .error (.memory e) => s!"err:{memErrStr e}"
    | .error .magicNotFound => "err:MagicNotFound"
    | .error .checksumMismatch => "err:ChecksumMismatch"
    | .ok none => "none"
    | .ok (some (i, l)) => s!"some({i},{i},{l},{hex64 (fnv (slice buf i l))})")

def findCase (t : List String) : String :=
  match t with
  | _ :: mis :: len :: rest =>
    let buf := sparseBuf len.toNat! (rest.headD "-")
    findOutStr buf (findHeaderAt mis.toNat! buf)
  | _ => "bad-case"

def specFind (t : List String) : String :=
  match t with
  | _ :: mis :: len :: rest =>
    if mis.toNat! % 8 ≠ 0 then "*" else
    let buf := sparseBuf len.toNat! (rest.headD "-")
    match Spec.find buf with
    | .none_ => "none"
    | .error => "err:*"
    | .some_ i l => s!"some({i},{i},{l},{hex64 (fnv (slice buf i l))})"
  | _ => "*"


/-- CAST <code> <size>: user-defined tag types of the harness (`sK`: K extra words; `dKeE`: K words then a tail of E-byte elements) -/
def castDesc (code : String) : Option TyDesc :=
  let cs := code.toList
  if code == "a16s" then some { sizedDesc 32 with align := 16 } else
  if code == "a16d" then some { dstDesc 16 16 with align := 16 } else
  match cs with
  | 's' :: k => some (sizedDesc (8 + 4 * (String.ofList k).toNat!))
  | 'd' :: k :: 'e' :: e =>
    let kk := (String.ofList [k]).toNat!
    let ee := (String.ofList e).toNat!
    let a := if ee = 4 then 4 else if ee = 8 ∨ ee = 24 then 8 else 1
    some (dstDesc (roundUp (8 + 4 * kk) a) ee)
  | _ => none

def castCase (p : Profile) (t : List String) : String :=
  match t with
  | _ :: code :: sz :: _ =>
    match castDesc code with
    | none => s!"unknown-type:{code}"
    | some d =>
      let size := sz.toNat!
      if size < 8 then "panic" else
      resStr (fun (r : Nat × Nat) => s!"ok off=0 sov={r.1} n={r.2}") (castTo p .tag d size (size - 8))
  | _ => "bad-case"

/-- C15 on the observation: a successful cast is at the same address and spans the tag's size rounded up to 8 -/
def specCast (t : List String) : String :=
  match t with
  | _ :: _ :: sz :: _ => let size := sz.toNat!; if size < 8 then "panic" else s!"panic||ok off=0 sov={roundUp8 size} *"
  | _ => "*"


def hexOf (b : Bytes) : String :=
  if b.isEmpty then "-" else String.ofList (b.flatMap fun x => [hexDigit (x.toNat / 16), hexDigit (x.toNat % 16)])

/-- ELFNAME <es> <n> <shndx> <entries> <strtab> -/
def elfnameCase (t : List String) : String :=
  match t with
  | [_, es, n, sh, ents, st] =>
    let entries := unhex ents
    let size := 20 + entries.length
    let T := enc32 9 ++ enc32 size ++ enc32 n.toNat! ++ enc32 es.toNat! ++ enc32 sh.toNat! ++ entries ++
             List.replicate (roundUp8 size - size) 0
    let v : View := ⟨0, size, roundUp8 size, entries.length⟩
    match elfOpen T v with
    | .ok (num, esz) =>
      let r := elfIter T esz num 20
      "[" ++ String.join (r.1.map fun s =>
        match elfName T esz sh.toNat! s.off (unhex st) with
        | .ok (.ok b) => s!"s:{hexOf b}|"
        | .ok (.error _) => "e:Utf8|"
        | .panic => "P|" | .oob => "OOB|" | .ub => "UB|") ++
      (match r.2 with | .done => "]." | .bad => "]!" | .oob => "]OOB" | .ub => "]UB")
    | .panic => "P" | .oob => "OOB" | .ub => "UB"
  | _ => "bad-case"


/-- read-back through the accessor model on the constructed bytes (same text as the harness prints) -/
def ctorRb (name : String) (img : Img) : String :=
  let T := img.bytes ++ zeros (img.sov - img.bytes.length)
  let f (o w : Nat) : String := resStr toString (rdW T o w)
  let strS (fixed : Nat) : String :=
    match parseStr (slice T fixed (img.size - fixed)) with
    | .ok n => s!"s:{hexOf (slice T fixed n)}"
    | .error .missingNul => "e:MissingNul"
    | .error .utf8 => "e:Utf8"
  let j (l : List String) := ":".intercalate l
  match name with
  | "cmdline" | "loader" => strS 8
  | "module" => j [f 8 4, f 12 4, strS 16]
  | "meminfo" => j [f 8 4, f 12 4]
  | "bootdev" => j [f 8 4, f 12 4, f 16 4]
  | "mmap" => s!"{f 8 4}:{f 12 4}:" ++ j ((List.range ((img.size - 16) / 24)).map fun i =>
      s!"{f (16 + 24*i) 8}/{f (24 + 24*i) 8}/{f (32 + 24*i) 4}")
  | "vbe" => j [f 8 2, f 10 2, f 12 2, f 14 2]
  | "fb" => j [f 8 8, f 16 4, f 20 4, f 24 4, f 28 1]
  | "elf" => j [f 8 4, f 12 4, f 16 4]
  | "apm" => j [f 8 2, f 10 2, f 12 4, f 16 2, f 18 2, f 20 2, f 22 2, f 24 2, f 26 2]
  | "efi32" | "ih32" | "loadbase" => f 8 4
  | "efi64" | "ih64" => f 8 8
  | "smbios" => j [f 8 1, f 9 1, hexOf (slice T 16 (img.size - 16))]
  | "rsdp1" => j [f 23 1, f 24 4]
  | "rsdp2" => j [f 23 1, f 32 8, f 40 1]
  | "h_address" => j [f 8 4, f 12 4, f 16 4, f 20 4]
  | "h_console" | "h_entry" | "h_efi32" | "h_efi64" => f 8 4
  | "h_fb" => j [f 8 4, f 12 4, f 16 4]
  | "h_reloc" => j [f 8 4, f 12 4, f 16 4, f 20 4]
  | "h_inforeq" => j ((List.range ((img.size - 8) / 4)).map fun i => f (8 + 4*i) 4)
  | _ => ""

def ctorCase (p : Profile) (t : List String) : String :=
  match t with
  | _ :: name :: rest =>
    let blob := unhex (rest.headD "-")
    match ctorImpl p name blob with
    | .ok img =>
      let fl := match img.flags with | some f => s!" flags={f}" | none => ""
      s!"typ={img.typ}{fl} size={img.size} bytes={hexOf img.bytes} sov={img.sov} align=8 asbytes=ok:{img.sov} rb={ctorRb name img}"
    | .panic => "panic" | .oob => "OOB" | .ub => "UB"
  | _ => "bad-case"


def boxedStr (b : Boxed) (size : Nat) (pl : Option Nat) : String :=
  let pls := match pl with | some n => s!" pl={n}" | none => ""
  s!"size={size} bytes={hexOf (b.bytes.take size)}{pls} sov={b.deallocSize} addr8=0 alloc={b.allocSize}/{b.align} dealloc={b.deallocSize}/{b.align}"

/-- BOXED <kind> <header image> <slices> -/
def boxedCase (p : Profile) (t : List String) : String :=
  match t with
  | _ :: ks :: hh :: rest =>
    match hkOf ks with
    | none => s!"unknown-kind:{ks}"
    | some k =>
      let hb := unhex hh
      let hdr := if k == .ht then enc16 (le16 hb 0 % 11) ++ enc16 (le16 hb 2 % 2) ++ hb.drop 4 else hb
      -- `-` = no slices; otherwise comma separated, `e` = an EMPTY slice
      let arg := rest.headD "-"
      let slices : List Bytes := if arg == "-" then [] else (arg.splitOn ",").map (fun s => if s == "e" || s == "" then [] else unhex s)
      match newBoxed p k (genericDesc k) hdr slices with
      | .ok b => boxedStr b (k.hsize + slices.flatten.length) (some slices.flatten.length)
      | .panic => "panic" | .oob => "OOB" | .ub => "UB"
  | _ => "bad-case"

/-- CLONE <kind> <tag image> -/
def cloneCase (p : Profile) (t : List String) : String :=
  match t with
  | [_, kind, hx] =>
    let bytes := unhex hx
    let kd : Option (HK × TyDesc) := match kind with
      | "generic" => some (.tag, genericDesc .tag) | "cmdline" => some (.tag, Kind.desc .cmdline)
      | "loader" => some (.tag, Kind.desc .loader) | "module" => some (.tag, Kind.desc .module)
      | "mmap" => some (.tag, Kind.desc .mmap) | "efimmap" => some (.tag, Kind.desc .efiMmap)
      | "elf" => some (.tag, Kind.desc .elf) | "smbios" => some (.tag, Kind.desc .smbios)
      | "fb" => some (.tag, Kind.desc .fb) | "network" => some (.tag, Kind.desc .network)
      | "hgeneric" => some (.ht, genericDesc .ht) | "inforeq" => some (.ht, infoReqDesc)
      | _ => none
    match kd with
    | none => s!"unknown-kind:{kind}"
    | some (k, d) =>
      let r : Res Boxed := do
        match ← refFromSlice p k 0 bytes with
        | .error _ => .panic
        | .ok pl =>
          let size := le32 bytes 4
          let _ ← castTo p k d size pl
          cloneDyn p k d (bytes.take (dynSizeOfVal k pl))
      match r with
      | .ok b => boxedStr b (le32 b.bytes 4) none
      | .panic => "panic" | .oob => "OOB" | .ub => "UB"
  | _ => "bad-case"


def parseBuildOps (s : String) : List (String × Bytes) :=
  ((s.splitOn ",").filter (fun x => x != "" && x != "-")).filterMap fun op =>
    match op.splitOn ":" with
    | [n, h] => some (n, unhex h)
    | _ => none

def buildCase (p : Profile) (t : List String) : String :=
  match buildMbi p (parseBuildOps (t.getD 1 "-")) with
  | .ok b =>
    let head := s!"len={b.deallocSize} total={le32 b.bytes 0} align8=0 "
    let mem := b.bytes ++ zeros (b.deallocSize - b.bytes.length)
    (match load p false mem with
     | .ok (.ok _) =>
       let area := (mem.take (le32 mem 0)).drop 8
       let w := tagsOf p .tag area
       head ++ "load=ok tags=" ++ String.join (w.1.map fun it => s!"{8 + it.off}:{it.typ}:{it.size}:{hexOf (slice area it.off it.size)},") ++
         (match w.2 with | .done => "|done" | .bad => "|panic" | _ => "|FAULT") ++ s!" last8={hexOf (slice mem (b.deallocSize - 8) 8)}"
     | .ok (.error (.memory e)) => head ++ s!"load=err:{memErrStr e} "
     | .ok (.error .noEndTag) => head ++ "load=err:NoEndTag "
     | _ => head ++ "load=FAULT ")
  | .panic => "panic" | .oob => "OOB" | .ub => "UB"

def hbuildCase (p : Profile) (t : List String) : String :=
  match buildHdr p (t.getD 1 "0").toNat! (parseBuildOps (t.getD 2 "-")) with
  | .ok b =>
    let mem := b.bytes ++ zeros (b.deallocSize - b.bytes.length)
    let head := s!"len={b.deallocSize} align8=0 hdr={hexOf (mem.take 16)} "
    (match hload p false mem with
     | .ok (.ok _) =>
       let area := (mem.take (le32 mem 8)).drop 16
       let w := tagsOf p .ht area
       head ++ "load=ok tags=" ++ String.join (w.1.map fun it => s!"{16 + it.off}:{it.size}:{hexOf (slice area it.off it.size)},") ++
         (match w.2 with | .done => "|done" | .bad => "|panic" | _ => "|FAULT") ++ s!" last8={hexOf (slice mem (b.deallocSize - 8) 8)}"
     | .ok (.error (.memory e)) => head ++ s!"load=err:{memErrStr e} "
     | .ok (.error .magicNotFound) => head ++ "load=err:MagicNotFound "
     | .ok (.error .checksumMismatch) => head ++ "load=err:ChecksumMismatch "
     | _ => head ++ "load=FAULT ")
  | .panic => "panic" | .oob => "OOB" | .ub => "UB"

def specRnd (t : List String) : String :=
  match t with
  | [_, n] => let v := n.toNat!; if v + 7 < 18446744073709551616 then toString (roundUp8 v) else "*"
  | _ => "*"

def specHandle (line : String) : String :=
  let t := (line.splitOn " ").filter (· != "")
  match t with
  | [] => "*"
  | f :: _ =>
    match f with
    | "REF" => specRef t
    | "LOAD" => specLoad t
    | "LOADBIG" => loadbigCase t
    | "DEPTH" => depthCase t
    | "WALK" => specWalk t
    | "RND" => specRnd t
    | "FBT" => specFbt t
    | "MAGIC" => "36d76289 e85250d6"
    | "HLOAD" => specHload t
    | "CKS" => specCks t
    | "FIND" => specFind t
    | "CAST" => specCast t
    | _ => "*"

/-! ### exhaustive block hashes: FNV fold of a model function over the 2^20 arguments of block `b` -/
def fnvU64 (h : UInt64) (v : UInt64) : UInt64 := Id.run do
  let mut h := h
  for i in [0:8] do
    h := (h ^^^ ((v >>> (UInt64.ofNat (8*i))) &&& 255)) * 1099511628211
  return h

def blockHash (f : String) (b : Nat) : UInt64 := Id.run do
  let lo := b * 1048576
  let mut h : UInt64 := 14695981039346656037
  for i in [0:1048576] do
    let v := lo + i
    let r : UInt64 := match f with
      | "rnd" => match incAlign .release v with | .ok x => UInt64.ofNat x | _ => 0
      | "tt" => sigTagType (UInt32.ofNat v)
      | "mat" => sigMemType (UInt32.ofNat v)
      | "elf" => sigElfType (UInt32.ofNat v)
      | "cks0" => UInt64.ofNat (calcChecksum HMAGIC 0 v) ^^^ (UInt64.ofNat (calcChecksum ((v * 2654435761) % 4294967296) 0 v) <<< 32)
      | "cks4" => UInt64.ofNat (calcChecksum HMAGIC 4 v) ^^^ (UInt64.ofNat (calcChecksum ((v * 2654435761) % 4294967296) 4 v) <<< 32)
      | _ => 0
    h := fnvU64 h r
  return h

def handle (p : Profile) (line : String) : String :=
  let t := (line.splitOn " ").filter (· != "")
  match t with
  | [] => "empty"
  | f :: _ =>
    match f with
    | "REF" => refCase p t
    | "LOAD" => loadCase p t
    | "LOADBIG" => loadbigCase t
    | "DEPTH" => depthCase t
    | "WALK" => walkCase p t
    | "RND" => rndCase p t
    | "FBT" => fbtCase t
    | "MAGIC" => magicCase
    | "HLOAD" => hloadCase p t
    | "CKS" => cksCase t
    | "FIND" => findCase t
    | "CAST" => castCase p t
    | "CTOR" => ctorCase p t
    | "BOXED" => boxedCase p t
    | "BUILD" => buildCase p t
    | "HBUILD" => hbuildCase p t
    | "CLONE" => cloneCase p t
    | "ELFNAME" => elfnameCase t
    | "HSWEEP" => (match t with | _ :: hx :: _ => (HSweep.hsweep p (unhex hx)).render | _ => "bad-case")
    | "SWEEP" => (match t with | _ :: hx :: _ => (Sweep.sweep p (unhex hx)).render | _ => "bad-case")
    | _ => s!"unknown-family:{f}"

end Mb2.Driver
