/-
  Mb2.HTags — model of the typed header tags of crate `multiboot2-header` and the HSWEEP rendering.
-/
import Mb2.Tags
import Mb2.Header
import Mb2.Build
import Mb2.Sweep
namespace Mb2

inductive HKind where
  | end_ | inforeq | address | entry | console | fb | modalign | efibs | efi32 | efi64 | reloc
deriving Repr, DecidableEq, Inhabited

def HKind.typ : HKind → Nat
  | .end_ => 0 | .inforeq => 1 | .address => 2 | .entry => 3 | .console => 4 | .fb => 5 | .modalign => 6 | .efibs => 7
  | .efi32 => 8 | .efi64 => 9 | .reloc => 10

/-- descriptors: `fixed` = unpadded end of the struct's fields; `baseSize` = the BASE_SIZE constant of the impl -/
def HKind.desc : HKind → TyDesc
  | .end_ => sizedDesc 8
  | .inforeq => infoReqDesc
  | .address => sizedDesc 24
  | .entry => { sizedDesc 12 with baseSize := 12 }
  | .console => { sizedDesc 12 with baseSize := 12 }
  | .fb => { sizedDesc 20 with baseSize := 20 }
  | .modalign => sizedDesc 8
  | .efibs => sizedDesc 8
  | .efi32 => { sizedDesc 12 with baseSize := 12 }
  | .efi64 => { sizedDesc 12 with baseSize := 12 }
  | .reloc => sizedDesc 24

/-- specific fields (name, offset, width) behind the common (typ u16 @0, flags u16 @2, size u32 @4) -/
def HKind.fields : HKind → List (String × Nat × Nat)
  | .address => [("header_addr", 8, 4), ("load_addr", 12, 4), ("load_end_addr", 16, 4), ("bss_end_addr", 20, 4)]
  | .entry | .efi32 | .efi64 => [("entry_addr", 8, 4)]
  | .console => [("console_flags", 8, 4)]
  | .fb => [("width", 8, 4), ("height", 12, 4), ("depth", 16, 4)]
  | .reloc => [("min_addr", 8, 4), ("max_addr", 12, 4), ("align", 16, 4), ("preference", 20, 4)]
  | _ => []

/-- enum-typed fields: (offset, width, number of declared values, stride) - reading any other value is `ub` -/
def enumOk (k : HKind) (T : Bytes) : Bool :=
  le16 T 0 ≤ 10 && le16 T 2 ≤ 1 &&
  (match k with
   | .console => le32 T 8 ≤ 1
   | .reloc => le32 T 20 ≤ 2
   | _ => true)

/-- `Multiboot2Header::get_tag::<T>()` on the tag area (header minus its 16 bytes) -/
def hgetTag (p : Profile) (area : Bytes) (k : HKind) : Res (Option View) :=
  let w := tagsOf p .ht area
  match w.1.find? (fun it => it.typ == k.typ) with
  | some it =>
    match castTo p .ht k.desc it.size it.pl with
    | .ok (sov, n) => .ok (some ⟨it.off, it.size, sov, n⟩)
    | .panic => .panic | .oob => .oob | .ub => .ub
  | none =>
    match w.2 with
    | .done => .ok none
    | .bad => .panic
    | .oob => .oob
    | .ub => .ub

namespace HSweep
open Sweep

def hgetter (name : String) (g : Res (Option View)) (body : View → Obs) : Obs :=
  t (name ++ "=") ++
  (match g with
   | .ok none => t "-"
   | .ok (some v) => t (s!"@{16 + v.off}:{v.sov}" ++ "{") ++ body v ++ t "}"
   | .panic => t "P" | .oob => [.oob] | .ub => [.ub]) ++ t ";"

def common (T : Bytes) : Obs := fields T [("typ", 0, 2), ("flags", 2, 2), ("size", 4, 4)]

/-- accessors of a fixed-size header tag: an undeclared enum value in one of its enum-typed fields is `ub` -/
def simpleBody (k : HKind) (T : Bytes) : Obs :=
  if enumOk k T then common T ++ fields T k.fields ++ t "debug=true," else [.ub]

def inforeqBody (T : Bytes) (v : View) : Obs :=
  if enumOk .inforeq T then
    common T ++ t s!"requests=[{16 + v.off + 8}:{v.n}|" ++
      colonJoin ((List.range v.n).map fun i => rd32 T (8 + 4 * i)) ++ t "],debug=true,"
  else [.ub]

def headS (area : Bytes) (w : List Item × End) (hl : HLoaded) : Obs :=
  t (s!"ld=ok({hl.magic}:{hl.arch}:{hl.length}:{hl.checksum}:true);" ++
    "tags=" ++ String.join (w.1.map fun it => s!"{16 + it.off}:{it.typ}:{le16 area (it.off + 2)}:{it.size}:{it.pl},")) ++
    walkEndS w.2 ++ t ";"

def hsweepLoaded (p : Profile) (R : Bytes) (hl : HLoaded) : Obs :=
  let area := R.drop 16
  let w := tagsOf p .ht area
  let ext (v : View) : Bytes := v.bytes area
  let g (k : HKind) := hgetTag p area k
  let simple (name : String) (k : HKind) := hgetter name (g k) (fun v => simpleBody k (ext v))
  -- every getter compares `tag.header().typ()` (an enum) of every walked tag with its ID: an undeclared type value is `ub`
  if w.1.any (fun it => it.typ > 10) then headS area w hl ++ [.ub] ++ t ";" else
  headS area w hl ++
  hgetter "inforeq" (g .inforeq) (fun v => inforeqBody (ext v) v) ++
  simple "address" .address ++ simple "entry" .entry ++ simple "efi32" .efi32 ++ simple "efi64" .efi64 ++
  simple "console" .console ++ simple "fb" .fb ++ simple "modalign" .modalign ++ simple "efibs" .efibs ++
  simple "reloc" .reloc ++
  t "debug=ok;"

def hsweep (p : Profile) (mem : Bytes) : Obs :=
  match hload p false mem with
  | .ok (.ok hl) => hsweepLoaded p (mem.take hl.length) hl
  | .ok (.error (.memory e)) => t s!"ld=err:{memErrStr e};"
  | .ok (.error .magicNotFound) => t "ld=err:MagicNotFound;"
  | .ok (.error .checksumMismatch) => t "ld=err:ChecksumMismatch;"
  | .panic => t "ld=panic;" | .oob => t "ld=" ++ [.oob] ++ t ";" | .ub => t "ld=" ++ [.ub] ++ t ";"

end HSweep
end Mb2
