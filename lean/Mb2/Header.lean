/-
  Mb2.Header — model of crate `multiboot2-header` (header.rs): load, checksum, find_header.
-/
import Mb2.Common
namespace Mb2

def HMAGIC : Nat := 0xe85250d6

/-- `u32::wrapping_sub` -/
def wsub32 (x y : Nat) : Nat := (x + W32 - y) % W32

/-- `Multiboot2BasicHeader::calc_checksum`: `0u32.wrapping_sub(magic).wrapping_sub(arch).wrapping_sub(length)` -/
def calcChecksum (m a l : Nat) : Nat := wsub32 (wsub32 (wsub32 0 m) a) l

inductive HLoadErr where
  | memory (e : MemErr) | magicNotFound | checksumMismatch
deriving Repr, DecidableEq, Inhabited

structure HLoaded where
  magic : Nat
  arch : Nat
  length : Nat
  checksum : Nat
deriving Repr, DecidableEq, Inhabited

/-- `Multiboot2Header::load`. The `arch` field has enum type `HeaderTagISA` (0 or 4): `verify_checksum` reads it, so
    any other stored value is `ub`. -/
def hload (p : Profile) (null : Bool) (mem : Bytes) : Res (Ex HLoadErr HLoaded) :=
  if null then .ok (.error (.memory .null))
  else do
    match ← refFromPtr p .hb 0 mem with
    | .error e => pure (.error (.memory e))
    | .ok (t, _pl) =>
      let region := mem.take t
      let magic ← rd32 region 0
      if magic ≠ HMAGIC then pure (.error .magicNotFound)
      else
        let arch ← rd32 region 4
        if arch ≠ 0 ∧ arch ≠ 4 then .ub
        else
          let len ← rd32 region 8
          let ck ← rd32 region 12
          if calcChecksum magic arch len ≠ ck then pure (.error .checksumMismatch)
          else pure (.ok ⟨magic, arch, len, ck⟩)

/-- `windows(4).position(..)`: scan the list itself (linear), `i` = current index, `w` = window end (exclusive) -/
def scanMagic : Bytes → Nat → Nat → Option Nat
  | [], _, _ => none
  | a :: rest, i, w =>
    if i + 4 ≤ w then
      if le32 (a :: rest) 0 = HMAGIC then some i else scanMagic rest (i + 1) w
    else none

/-- `Multiboot2Header::find_header` for an 8-aligned buffer: `(index, length)` of the returned sub-slice -/
def findHeader (buf : Bytes) : Res (Ex HLoadErr (Option (Nat × Nat))) :=
  let w := min buf.length 8192
  match scanMagic buf 0 w with
  | none => .ok (.ok none)
  | some i =>
    if i % 8 ≠ 0 then .ok (.error (.memory .wrongAlignment))
    else if i + 12 > buf.length then .ok (.error (.memory .missingPadding))       -- buffer.get(i+8..i+12) = None
    else
      let hl := le32 buf (i + 8)
      if i + hl > buf.length then .ok (.error (.memory .invalidReportedTotalSize))
      else .ok (.ok (some (i, hl)))

/-- misaligned buffer start -/
def findHeaderAt (addr : Nat) (buf : Bytes) : Res (Ex HLoadErr (Option (Nat × Nat))) :=
  if addr % 8 ≠ 0 then .ok (.error (.memory .wrongAlignment)) else findHeader buf

end Mb2
