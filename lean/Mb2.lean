import Mb2.Basic
import Mb2.Common
import Mb2.Mbi
import Mb2.Driver
